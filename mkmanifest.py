#!/usr/bin/env python3
"""Regenerate MANIFEST.json from the per-property table below (kept valid at all times)."""
import json, os, sys
ROOT = os.path.dirname(os.path.abspath(__file__))
PY = "/venv/bin/python -B /verif/run.py"

CHECKS = {
 "C01": dict(engine="E1 seq", cat="model_checking", ref="6 C01",
   technique="explicit exhaustive enumeration of environment-answer sequences on the real retry loop (stateless DFS), spec monitor + differential fresh-vs-used object",
   text="Every (configuration, entry point) cell of a finite lattice (max_attempts<=3/4, per-class table, UNKNOWN cap, strategy table) is run on the real sync and async retry loops for every outcome sequence over 17 outcome kinds; a monitor derived from the statement counts invocations and retries per class; second calls on a used policy are compared with a fresh one.",
   note="attempt_timeout_s=None; bounds: max_attempts<=3 (4 thorough), listed limit values; virtual clock; classifier stubs deterministic"),
}
PENDING = {
}
ALL = [f"C{n:02d}" for n in range(1, 21)]

def main():
    checks = []
    for pid in ALL:
        c = CHECKS.get(pid)
        if not c:
            continue
        checks.append({
            "property_id": pid,
            "quick_cmd": f"{PY} check {pid} --tier quick",
            "thorough_cmd": f"{PY} check {pid} --tier thorough",
            "evidence_file": f"/verif/evidence/{pid}.json",
            "replay_cmd_template": f"{PY} replay {{path}}",
            "engine": c["engine"],
            "level_claimed": {"category": c["cat"], "text": c["text"], "design_ref": "DESIGN.md section " + c["ref"]},
            "level_note": c["note"],
            "technique": c["technique"],
        })
    na = [{"property_id": pid, "reason": PENDING.get(pid, "check not built yet in this session (planned in DESIGN.md section 6); not claimed until its machinery is committed")}
          for pid in ALL if pid not in CHECKS]
    m = {
        "version": 1,
        "setup_cmd": f"{PY} selftest",
        "hooks": {
            "guard": "REDRESS_VERIF",
            "enable": "no source hooks: every seam is a public parameter, a module attribute or an instance attribute patched by the harness at run time (DESIGN.md section 8)",
            "baseline_off_cmd": "cd /repo && /venv/bin/python -m pytest -q -p no:cacheprovider --timeout=900",
            "source_commits": [],
            "add_only": True,
        },
        "engines": [
            {"name": "E1 seq", "path": "/verif/mc/seq.py", "serves_properties": [p for p in ALL if p in CHECKS and "E1" in CHECKS[p]["engine"]], "kind_free_text": "stateless exhaustive exploration of environment answers through real entry points"},
            {"name": "E2 state", "path": "/verif/mc/statebfs.py", "serves_properties": [p for p in ALL if p in CHECKS and "E2" in CHECKS[p]["engine"]], "kind_free_text": "explicit-state BFS over operation histories of real component objects"},
            {"name": "E3 coro", "path": "/verif/mc/coro.py", "serves_properties": [p for p in ALL if p in CHECKS and "E3" in CHECKS[p]["engine"]], "kind_free_text": "interleavings and cancellation points of hand-driven coroutines"},
            {"name": "E4 thread", "path": "/verif/mc/threads.py", "serves_properties": [p for p in ALL if p in CHECKS and "E4" in CHECKS[p]["engine"]], "kind_free_text": "preemption-bounded schedule exploration of real threads via sys.monitoring"},
            {"name": "E5 domain", "path": "/verif/mc/domain.py", "serves_properties": [p for p in ALL if p in CHECKS and "E5" in CHECKS[p]["engine"]], "kind_free_text": "exhaustive finite input lattices for pure functions"},
        ],
        "checks": checks,
        "not_applicable": na,
        "notes": "All checks are stdlib Python exploring the real code in /repo/src (imported from the working tree by every command). See DESIGN.md.",
    }
    with open(os.path.join(ROOT, "MANIFEST.json"), "w") as f:
        json.dump(m, f, indent=1)
    try:
        import jsonschema
        jsonschema.validate(m, json.load(open("/root/.vp/MANIFEST.schema.json")))
        print("manifest valid;", len(checks), "checks,", len(na), "not_applicable")
    except ImportError:
        print("jsonschema not available; manifest written")

if __name__ == "__main__":
    main()
