#!/usr/bin/env python3
"""Regenerate MANIFEST.json from the per-property table below (kept valid at all times)."""
import json, os, sys
ROOT = os.path.dirname(os.path.abspath(__file__))
PY = "/venv/bin/python -B /verif/run.py"

CHECKS = {
 "C01": dict(engine="E1 seq", cat="model_checking", ref="6 C01",
   technique="explicit exhaustive enumeration of environment-answer sequences on the real retry loop (stateless DFS), spec monitor + differential fresh-vs-used object",
   text="Every (configuration, entry point) cell of a finite lattice (max_attempts<=3/4, per-class table, UNKNOWN cap, strategy table) is run on the real sync and async retry loops for every outcome sequence over 17 outcome kinds; a monitor derived from the statement counts invocations and retries per class; second calls on a used policy are compared with a fresh one.",
   note="bounds: max_attempts<=3/4, listed limit values; virtual clock; attempt_timeout_s through an owned one-worker executor (sync) and a virtual event loop (async); sugar entry points, overlapping and re-entrant calls on one policy object included"),
}
CHECKS.update({
 "C02": dict(engine="E1 seq", cat="model_checking", ref="6 C02",
   technique="exhaustive enumeration of run timings (durations, strategy answers, overshoot) on a virtual monotonic clock, wall-clock jumps as deviations; spec monitor + differential steady-vs-jumping wall clock",
   text="For deadlines of 2-4 ticks every combination of attempt outcome, duration, strategy answer and sleeper overshoot up to max_attempts=3 is run on the real loops; the monitor checks on the owned monotonic timeline that no attempt begins after the deadline, no requested sleep exceeds the remaining time, total sleep <= deadline and late failures are not retried; wall-clock reads may jump by +/-1e9 s and the run must not change.",
   note="tick resolution 0.125 s (library rounds to microseconds); sleeper overshoot >= 0; attempt_timeout_s modelled (owned executor / virtual loop); one off-lattice deadline (0.3754 s, also through from_config); time may also pass inside a strategy object's record_failure(); other callbacks take no time in this property; interrupted sleepers; deadlines of an hour with gaps above ten minutes; every failure class with the top draw"),
 "C03": dict(engine="E1 seq", cat="model_checking", ref="6 C03",
   technique="exhaustive outcome sequences x deviation-bounded environment answers on the real retry loop; monitor recomputes the set of holding stop conditions from the observed history",
   text="Configuration lattice (caps, strategy tables, deadline, budget fill) x all outcome sequences x abort polls, handler decisions, durations and overshoot as bounded deviations; at every failed attempt the monitor derives which stop conditions hold and requires: no retry event/token/handler/sleep when one holds, a further attempt when none can hold, and a reported stop reason that is one of the holding conditions.",
   note="budget/window and post-sleep deadline boundaries are don't-cares; deviation bound 1 quick / 2 thorough; abort modelled both as poll answers and as a flag raised by the environment; shared budget with a second consumer; attempt_timeout_s modelled"),
 "C04": dict(engine="E1 seq", cat="model_checking", ref="6 C04",
   technique="exhaustive mixed exception/result outcome sequences x deviation-bounded stop reasons on 8 call-style entry points; object-identity oracle",
   text="call() through Retry, Policy, RetryPolicy, context managers and async twins for every outcome sequence mixing exception and result failures and every stop reason; the returned object must be the successful attempt's own object, the raised exception the last attempt's own object with a traceback ending at its raise site, and RetryExhaustedError fields must describe the final attempt.",
   note="aborted and cancellation-type endings judged by C13; result classifier also in one-shot mode; same exception object re-raised; None results; awaitable objects as successful values; falsy exception objects; unobserved runs (no hooks at all); attribute-configured wrappers; attempt_timeout_s modelled through the owned executor / virtual loop and, in surface-late-attempt, on the library's real threads (an overrunning attempt really blocks and finishes late at an enumerated release point; event-sequenced, DESIGN 11.8); exception instances as values; one-member exception groups"),
 "C05": dict(engine="E1 seq", cat="model_checking", ref="6 C05",
   technique="exhaustive enumeration of strategy tables, class sequences and strategy answers (NaN, inf, negative, beyond remaining) on the real loop; exact expected delay on a dyadic time lattice",
   text="For each strategy table (default / per-class / both, context or legacy signature) and every class sequence and strategy answer, the monitor checks that exactly the designated strategy is called once per granted retry with the true attempt number, the classifier's own Classification object, the previously applied delay, the remaining time and the cause, and that the sanitised, capped delay is what events, handler, before_sleep, sleeper and next_sleep_s carry.",
   note="max_attempts 3 (4 thorough); values on the 0.125 s lattice; strategy signatures (ctx), (attempt, klass, prev) and (ctx, a=.., b=..); slow sleep handler; attempt_timeout_s modelled"),
 "C11": dict(engine="E1 seq", cat="model_checking", ref="6 C11",
   technique="exhaustive outcome sequences x deviation-bounded stop reasons x single callback faults on 8 execute-style entry points; outcome-field oracle derived from the trace",
   text="execute() through Retry, Policy (with and without retry), RetryPolicy and async twins: ok/value/stop_reason/attempts/last_class/cause/last_exception/last_result/next_sleep_s must describe the final attempt; only cancellation-type exceptions, nested RetryExhaustedError and the caller's strategy/classifier/sleeper errors may propagate.",
   note="abort between a failure and its processing is a documented don't-care; stop_reason unchecked without retry component; attempt_timeout_s modelled incl. a hung attempt keeping the single worker busy, and on the library's real threads with late completion of the timed-out attempt (outcome-late-attempt, DESIGN 11.8); awaitable values"),

 "C08": dict(engine="E1 seq + E3 coro", cat="fault_enumeration", ref="6 C08",
   technique="exhaustive single-fault (thorough: double-fault) injection at every callback invocation, every operation ending and every coroutine suspension point of real policy calls; spy breaker + functional probe oracle",
   text="For 12 entry paths and both admitting breaker states (closed, half-open probe) every way an admitted call can end is enumerated: each operation ending at each attempt, each callback raising at each invocation, and CancelledError/KeyboardInterrupt/SystemExit/close() at each await. After the call the spy breaker must have a record and, once recovery_timeout_s has elapsed, the next allow() must be admitted.",
   note="max_attempts 2 (3 thorough await family); coroutines driven by send/throw/close and as Tasks on a virtual event loop (Task.cancel between any two iterations, with and without attempt_timeout_s); breaker re-pointed or attached by attribute assignment; the probe of a second trip/recovery cycle after the call must be admitted too; observability hooks raising BaseExceptions at the admission event; falsy breaker subclasses; coroutines closed before their first step or hopping OS threads"),
 "C09": dict(engine="E1 seq", cat="model_checking", ref="6 C09",
   technique="exhaustive outcome sequences x deviation-bounded stop reasons x call sequences on a logging subclass of the real CircuitBreaker; per-call record oracle",
   text="Policy/AsyncPolicy call/execute with and without retry: for every outcome sequence and stop reason and for sequences of calls sharing one breaker, each admitted call must make exactly one record after its last invocation: success iff a value was delivered, failure(K) with the final failure's class iff retries stopped on a failure or deferral, cancel iff aborted/cancelled; rejected calls none.",
   note="unclassified endings accept any single record; pre-flight abort of a retry-less policy is judged under C07; re-entrant calls through the same Policy from inside callbacks; hooks raising cancellation-type exceptions at every breaker event of the call (F14); callbacks raising late; an exception instance travelling between policies"),
 "C13": dict(engine="E1 seq + E3 coro", cat="model_checking", ref="6 C13",
   technique="exhaustive abort-poll vectors x outcome sequences x cancellation-type exceptions from operation and sleeper; cancellation injected at every coroutine suspension point; structural trace oracle",
   text="Every first-True poll index, every attempt or sleep at which KeyboardInterrupt/SystemExit/CancelledError is raised, and every await point at which an async run is cancelled or closed: a poll must precede every attempt and every sleep, nothing is invoked after abort or cancellation, the same exception object leaves the call, the coroutine never suspends again.",
   note="max_attempts 3 (4 thorough); 1 injection per run; async also as Tasks on a virtual event loop with attempt_timeout_s; abort also as an environment flag or a falsy callable token; cancellation classes that also derive from Exception; cancellation requested during an attempt (delivered at the backoff sleep, also a zero-length one through the default sleeper); event-like and optional-parameter predicates; predicates that raise"),
 "C14": dict(engine="E1 seq", cat="model_checking", ref="6 C14",
   technique="exhaustive outcome sequences x deviation-bounded stop reasons with all three sinks attached; stream-shape and tag oracle; breaker events checked against the spy breaker's return values",
   text="Metric hook, log hook and timeline (captured or supplied) must receive the same sequence retry* terminal, the i-th retry with attempt=i and the applied delay, the terminal event matching the delivered stop reason and describing the final failure; every event returned by the breaker is emitted exactly once with attempt 0 and the breaker's state.",
   note="attempt number of terminal events not checked; only normally-ending runs (runs with raising hooks included); breaker event tags compared with the breaker's actual state"),
 "C16": dict(engine="E1 seq", cat="model_checking", ref="6 C16",
   technique="exhaustive handler-decision sequences x 64 callback placements x sync/async/awaitable variants on real entry points; protocol oracle",
   text="All sequences of SLEEP/DEFER/ABORT over the retries of a run, all 64 placements of handler/before_sleep/sleeper at policy level, call level, both or neither with distinct stub identities: one consultation of the effective handler per granted retry with the computed delay; SLEEP => before_sleep then one sleeper call then the next attempt; DEFER => SCHEDULED with next_sleep_s; ABORT => ABORTED; call-level overrides policy-level.",
   note="max_attempts 4 (5 thorough); awaitables that are coroutines and plain __await__ objects; slow handler with a deadline; raising before_sleep; attribute-configured wrappers"),

 "C12": dict(engine="E1 seq (differential)", cat="model_checking", ref="6 C12",
   technique="exhaustive answer-script tree on one entry point, every script replayed on the 23 other entry points under a structure-checking chooser; normalised-trace equality",
   text="Every environment-answer script of Retry.execute (all outcome sequences, other answers as bounded deviations) is replayed on each of 24 entry points (Retry, Policy, RetryPolicy, from_config, context managers, @retry, async twins): they must ask the same questions in the same order and produce the same invocations, strategy calls, sleeps, events, budget and breaker interactions; call and execute deliveries must correspond.",
   note="classifier calls and attempt hooks are outside the compared trace (not listed by the statement); deviation bound 1 quick / 2 thorough; 28 entry points incl. attribute-configured ones; attempt_timeout_s compared between the owned executor (sync) and the virtual loop (async)"),
 "C15": dict(engine="E1 seq (differential)", cat="fault_enumeration", ref="6 C15",
   technique="exhaustive hook-fault injection (hook x exception type x invocation index / always) replayed against the silent run of the same answer script; normalised-trace equality",
   text="For every baseline run and each of on_metric, on_log, before_sleep: raise at each single invocation index and always, for 7 exception types; the faulty run must equal the silent run in invocations, sleeps, delivered result, breaker and budget updates and in what the other hook and the timeline received.",
   note="hooks raise subclasses of Exception; one faulty hook per run (two thorough); hooks supplied as bound methods, functools.partial, callable objects, and by attribute assignment; hooks failing at the call boundary (C callable, wrong arity); warnings turned into errors"),

 "C06": dict(engine="E2 state + E1 seq", cat="model_checking", ref="6 C06",
   technique="explicit-state BFS over operation histories of the real CircuitBreaker with canonical-state deduplication, compared transition by transition with a list-of-failures reference model (subset construction over boundary conventions)",
   text="For ~150 (quick) / 216 (thorough) breaker configurations every history of allow/record_success/record_failure(K)/record_cancel/tick up to depth 7 (9 thorough) is explored on the real object; record_failure must report 'opened' exactly when the counted failures within the window reach the global or class threshold, other classes, expired failures, failures before the last transition and successes while closed never change the verdict; policy-level sequences of calls are checked against the same reference.",
   note="records with no call outstanding in half-open are not generated; boundary ages are don't-cares but must be read consistently along a history; canonical form validated by a differential probe suite on sampled duplicates"),
 "C10": dict(engine="E2 state + E1 seq", cat="model_checking", ref="6 C10",
   technique="explicit-state BFS over consume/remaining/tick histories of the real Budget against a list-of-grants reference; sliding-window invariant re-derived from observed grants; shared-budget call sequences through real policies",
   text="All histories of consume(1)/consume(2)/remaining()/tick to depth 9 (12 thorough) for max_retries 0..3 and two windows: grants are all-or-nothing, refused only when the window is full, capacity returns when grants age out; for every grant instant the number of grants in (t-W, t] never exceeds max_retries. Sync and async policies sharing one budget: every retry is a grant, every BUDGET_EXHAUSTED a real refusal.",
   note="grant exactly window_s old is a don't-care read consistently; virtual clock"),

 "C07": dict(engine="E2 state + E3 coro + E1 seq", cat="model_checking", ref="6 C07",
   technique="explicit-state BFS over identity-aware call histories on the real CircuitBreaker and over interleavings of hand-driven AsyncPolicy coroutines sharing one breaker; identity-aware reference automaton with look-ahead comparison; first-divergence pruning",
   text="(a) histories start/settle(i, success|failure|cancel)/tick with 2-3 outstanding calls on the real breaker, (b) all interleavings to depth 7 (9) of 2-3 concurrent AsyncPolicy.call/execute coroutines (with/without retry, pre-flight abort) with resume-ok, resume-failure, cancel and tick events, (c) sequential Policy/AsyncPolicy histories: from opening until the timeout every start is rejected without invoking the operation and without being counted, afterwards exactly one probe is admitted until it settles, success closes with empty history, failure re-opens with a fresh timeout, cancel frees the slot.",
   note="two known findings (c07.stale-settle, c07.unadmitted-cancel) are listed in known_findings.json and pruned at their first divergent step; every other divergence is a violation; E3 states are merged only when breaker state, reference state and a fingerprint of every suspended call (coroutine-frame locals, context-object fields) agree"),

 "C17": dict(engine="E4 thread", cat="model_checking", ref="6 C17",
   technique="stateless exploration of real thread interleavings under a controlled scheduler (sys.monitoring line/bytecode scheduling points, baton hand-off, cooperative model lock), iterative pre-emption bounding; brute-force linearizability against sequential runs of the real component",
   text="25 small concurrent programs (three with a thread that advances the clock) over one shared CircuitBreaker or Budget (racing probes, racing failures at the threshold, settle-vs-allow, racing consume at one token left, all-or-nothing consume(2), state/remaining reads, 3-thread variants, window-boundary variants): every interleaving with pre-emption before every source line up to the bound (complete for 2 threads x 1 op in thorough, plus bytecode granularity) must give per-thread results, final state and follow-up answers equal to some sequential order; deadlocks and exceptions under an interleaving are violations.",
   note="the clock advances only through explicit tick operations of a program; sequential consistency (GIL); pre-emption bound 2-3 quick; any threading.Lock/RLock attribute of the instance is replaced by a model lock"),

 "C18": dict(engine="E5 domain + E2 state", cat="exploration", ref="6 C18",
   technique="exhaustive enumeration of a finite input lattice (attempt x previous delay x parameters x owned random draw) against exact rational envelopes; explicit-state BFS over histories of the real AdaptiveStrategy",
   text="Full product of ~1300 (4300 thorough) attempt numbers including 2^k+-1 and 1e18, 7 previous delays, 21 (base,max) pairs and 5 draw fractions (endpoints and interior) for decorrelated_jitter / equal_jitter / token_backoff with envelopes computed in exact rational arithmetic; retry_after_or over hint x jitter x remaining x fallback lattices; adaptive() over all histories of success/failure/tick/call to depth 7 (9): never raises, stays within its envelope.",
   note="bounded input enumeration, not a proof over the reals; the random module inside redress.strategies is replaced by an owned stub; token_backoff compared with relative tolerance 1e-9"),
 "C19": dict(engine="E5 domain", cat="exploration", ref="6 C19",
   technique="exhaustive enumeration of exception types x attribute-value products against an independently restated classification table with explicit don't-cares; optional-library classifiers with importlib made to fail",
   text="~1M evaluations: 28 exception types (markers, TimeoutError, builtins, generated names hitting/missing every heuristic) x every int in -1000..1000 on each attribute alone and the full product of a 19-32 value core (None, bools, huge ints, floats, NaN, strings, bytes, containers, objects) on attribute pairs (triples thorough), args shapes, SQLSTATE codes and near misses: each classifier returns an ErrorClass within the documented table's allowed set and never raises; strict_classifier is invariant under renaming; each optional-library classifier equals default_classifier when its import fails.",
   note="where the documentation is silent (truthy non-int status masking code, marker vs numeric on http/sqlstate, non-string SQLSTATE values) every reading is accepted"),
 "C20": dict(engine="E5 domain + E1 end-to-end", cat="exploration", ref="6 C20",
   technique="exhaustive enumeration of header strings from a token grammar up to length 3 (4), non-string values and container shapes with an owned wall clock; end-to-end runs of a real Retry with http_retry_after_classifier and retry_after_or over hint x jitter x draw x remaining lattices",
   text="Every string of <= 3 (4) tokens from a 30-token grammar as header value and as retry_after attribute, 17 non-string values, 28 container shapes x key casings x exc.headers/exc.response.headers: never raises, yields no hint or a non-negative number, exactly n for a plain digit string within float range, exactly the time until a valid HTTP-date clamped at 0, no hint for digit-free garbage; end-to-end the sleeper receives a delay in [min(h, rem), min(h+jitter, rem)].",
   note="datetime inside redress.extras.http replaced by an owned subclass (now = 2030-01-01T00:00:00Z); strings containing digits that are neither plain digit strings nor the four valid dates are don't-cares"),
})
PENDING = {
}
ALL = [f"C{n:02d}" for n in range(1, 21)]

def main():
    checks = []
    for pid in ALL:
        c = CHECKS.get(pid)
        if not c:
            continue
        checks.append({
            "property_id": pid,
            "quick_cmd": f"{PY} check {pid} --tier quick",
            "thorough_cmd": f"{PY} check {pid} --tier thorough",
            "evidence_file": f"/verif/evidence/{pid}.json",
            "replay_cmd_template": f"{PY} replay {{path}}",
            "engine": c["engine"],
            "level_claimed": {"category": c["cat"], "text": c["text"], "design_ref": "DESIGN.md section " + c["ref"]},
            "level_note": c["note"],
            "technique": c["technique"],
        })
    na = [{"property_id": pid, "reason": PENDING.get(pid, "check not built yet in this session (planned in DESIGN.md section 6); not claimed until its machinery is committed")}
          for pid in ALL if pid not in CHECKS]
    m = {
        "version": 1,
        "setup_cmd": f"{PY} selftest",
        "hooks": {
            "guard": "REDRESS_VERIF",
            "enable": "no source hooks: every seam is a public parameter, a module attribute or an instance attribute patched by the harness at run time (DESIGN.md section 8)",
            "baseline_off_cmd": "cd /repo && /venv/bin/python -m pytest -q -p no:cacheprovider --timeout=900",
            "source_commits": [],
            "add_only": True,
        },
        "engines": [
            {"name": "E1 seq", "path": "/verif/mc/seq.py", "serves_properties": [p for p in ALL if p in CHECKS and "E1" in CHECKS[p]["engine"]], "kind_free_text": "stateless exhaustive exploration of environment answers through real entry points"},
            {"name": "E2 state", "path": "/verif/mc/statebfs.py", "serves_properties": [p for p in ALL if p in CHECKS and "E2" in CHECKS[p]["engine"]], "kind_free_text": "explicit-state BFS over operation histories of real component objects"},
            {"name": "E3 coro", "path": "/verif/mc/coro.py", "serves_properties": [p for p in ALL if p in CHECKS and "E3" in CHECKS[p]["engine"]], "kind_free_text": "interleavings and cancellation points of hand-driven coroutines"},
            {"name": "E4 thread", "path": "/verif/mc/threads.py", "serves_properties": [p for p in ALL if p in CHECKS and "E4" in CHECKS[p]["engine"]], "kind_free_text": "preemption-bounded schedule exploration of real threads via sys.monitoring"},
            {"name": "E5 domain", "path": "/verif/mc/domain.py", "serves_properties": [p for p in ALL if p in CHECKS and "E5" in CHECKS[p]["engine"]], "kind_free_text": "exhaustive finite input lattices for pure functions"},
        ],
        "checks": checks,
        "not_applicable": na,
        "notes": "All checks are stdlib Python exploring the real code in /repo/src (imported from the working tree by every command). See DESIGN.md.",
    }
    with open(os.path.join(ROOT, "MANIFEST.json"), "w") as f:
        json.dump(m, f, indent=1)
    try:
        import jsonschema
        jsonschema.validate(m, json.load(open("/root/.vp/MANIFEST.schema.json")))
        print("manifest valid;", len(checks), "checks,", len(na), "not_applicable")
    except ImportError:
        print("jsonschema not available; manifest written")

if __name__ == "__main__":
    main()
