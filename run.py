#!/venv/bin/python
"""Entry point of the redress model-checking machinery.

  run.py check <id> [--tier quick|thorough] [--workers N]
  run.py replay <path>
  run.py selftest
  run.py all [--tier ...]

Exit 0: property held on everything explored (KNOWN-FINDING lines possible).
Exit 1: "VIOLATION property=<id> replay=<path>" printed.
Exit 3: harness self-check failed (not a verdict).
"""

import os
import sys

sys.dont_write_bytecode = True
os.environ.setdefault("PYTHONHASHSEED", "0")
ROOT = os.path.dirname(os.path.abspath(__file__))
if ROOT not in sys.path:
    sys.path.insert(0, ROOT)


def _reexec_if_needed():
    # hash randomisation must be off for reproducible set iteration in the harness
    if os.environ.get("PYTHONHASHSEED") != "0" or not sys.flags.dont_write_bytecode:
        os.environ["PYTHONHASHSEED"] = "0"
        os.execv(sys.executable, [sys.executable, "-B"] + sys.argv)


def main(argv):
    import argparse

    ap = argparse.ArgumentParser()
    sub = ap.add_subparsers(dest="cmd", required=True)
    c = sub.add_parser("check")
    c.add_argument("pid")
    c.add_argument("--tier", default=os.environ.get("VERIF_TIER", "quick"))
    c.add_argument("--workers", type=int, default=None)
    r = sub.add_parser("replay")
    r.add_argument("path")
    sub.add_parser("selftest")
    a = sub.add_parser("all")
    a.add_argument("--tier", default="quick")
    args = ap.parse_args(argv)
    seed = int(os.environ.get("VERIF_SEED", "0") or 0)

    if args.cmd == "check":
        from mc import runner
        tier = args.tier if args.tier in ("quick", "thorough") else "quick"
        return runner.check(args.pid.upper(), tier, seed, args.workers)
    if args.cmd == "all":
        from mc import runner
        rc = 0
        for pid in runner.PROPS:
            try:
                runner.prop_module(pid)
            except ModuleNotFoundError:
                continue
            rc = max(rc, runner.check(pid, args.tier, seed))
        return rc
    if args.cmd == "replay":
        from mc import replay
        return replay.main(args.path)
    if args.cmd == "selftest":
        from mc import selftest
        return selftest.main(seed)
    return 2


if __name__ == "__main__":
    _reexec_if_needed()
    sys.exit(main(sys.argv[1:]))
