#!/usr/bin/env python3
"""Apply one catalogued mutant to /repo, run the repository tests (optional) and the named
checks, revert.  Usage: mutate.py <name> [--tests] [--props C01,C03] [--tier quick]

The catalogue (tools/mutants.py) is the list of DESIGN.md section 10 plus additions; nothing
here is ever committed to /repo.
"""
import argparse, os, subprocess, sys
sys.dont_write_bytecode = True
HERE = os.path.dirname(os.path.abspath(__file__))
sys.path.insert(0, HERE)
from mutants import MUTANTS  # noqa: E402

REPO = "/repo"


def apply(m):
    for (path, old, new) in m["edits"]:
        p = os.path.join(REPO, path)
        s = open(p).read()
        if s.count(old) < 1:
            raise SystemExit(f"mutant {m['name']}: pattern not found in {path}: {old[:60]!r}")
        cnt = m.get("count", 1)
        s = s.replace(old, new, cnt) if cnt else s.replace(old, new)
        open(p, "w").write(s)


def revert():
    subprocess.run(["git", "-C", REPO, "checkout", "--", "."], check=True)


def main():
    ap = argparse.ArgumentParser()
    ap.add_argument("names", nargs="*")
    ap.add_argument("--tests", action="store_true")
    ap.add_argument("--props", default=None)
    ap.add_argument("--tier", default="quick")
    ap.add_argument("--list", action="store_true")
    a = ap.parse_args()
    if a.list:
        for m in MUTANTS:
            print(m["name"], m["props"])
        return
    names = a.names or [m["name"] for m in MUTANTS]
    rows = []
    for name in names:
        m = next(x for x in MUTANTS if x["name"] == name)
        st = subprocess.run(["git", "-C", REPO, "status", "--porcelain"], capture_output=True, text=True).stdout
        if st.strip():
            raise SystemExit("/repo is dirty; refusing")
        try:
            apply(m)
            r = subprocess.run(["/venv/bin/python", "-c", "import sys; sys.path.insert(0, '/repo/src'); import redress, redress.policy.runner.async_core"], capture_output=True, text=True)
            if r.returncode:
                print(name, "DOES NOT IMPORT:", r.stderr.strip().splitlines()[-1])
                continue
            tests = "-"
            if a.tests:
                r = subprocess.run("cd /repo && /venv/bin/python -m pytest -q -x -p no:cacheprovider --timeout=900 --no-cov 2>&1 | tail -1",
                                   shell=True, capture_output=True, text=True)
                tests = r.stdout.strip()
            props = (a.props.split(",") if a.props else m["props"])
            res = {}
            for pid in props:
                r = subprocess.run(["/venv/bin/python", "-B", "/verif/run.py", "check", pid, "--tier", a.tier],
                                   capture_output=True, text=True, timeout=1500)
                keys = sorted({l.strip().split("]")[0][1:] for l in r.stdout.splitlines() if l.strip().startswith("[")})
                res[pid] = (r.returncode, keys)
        finally:
            revert()
        rows.append((name, tests, res))
        print(name, "| tests:", tests, "|", res, flush=True)
    subprocess.run(["rm", "-rf", "/verif/replays"])
    missed = [n for n, _, res in rows if not any(rc == 1 for rc, _ in res.values())]
    print("MISSED:", missed)


if __name__ == "__main__":
    main()
