#!/usr/bin/env python3
"""Regenerate seeded/INDEX.md from seeded/*/meta.json."""
import glob, json, os
ROOT = os.path.dirname(os.path.dirname(os.path.abspath(__file__)))
rows = []
for mp in sorted(glob.glob(os.path.join(ROOT, "seeded", "*", "meta.json"))):
    m = json.load(open(mp))
    d = os.path.basename(os.path.dirname(mp))
    runs = m.get("checks_run", {})
    cells = []
    for tier, res in runs.items():
        for pid, r in res.items():
            cells.append(f"{pid}/{tier}: rc={r['rc']} {', '.join(r['keys'][:4])}")
    rows.append((d, m.get("property"), m.get("summary", ""), m.get("needs", ""),
                 ", ".join(m.get("detected_by", [])) or ("- (" + m["status"] + ")" if m.get("status") else "NOT DETECTED"),
                 "; ".join(cells)))
with open(os.path.join(ROOT, "seeded", "INDEX.md"), "w") as f:
    f.write("# Independently written property-breaking changes\n\n"
            "Each was produced by a fresh sub-agent that saw only the property text and a scratch worktree, "
            "then confirmed here (repository suite passes with the change, the demonstration fails with it and "
            "passes without it) and run against the checks with `tools/seedcheck.py run`.\n\n"
            "| id | property | change | needs | detected by | runs |\n|---|---|---|---|---|---|\n")
    for r in rows:
        f.write("| " + " | ".join(str(x).replace("|", "/").replace("\n", " ") for x in r) + " |\n")
print(len(rows), "entries")
