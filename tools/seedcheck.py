#!/usr/bin/env python3
"""Confirm and evaluate one independently written property-breaking change.

  seedcheck.py confirm <worktree> <out-dir>      in the scratch worktree: suite passes with the
                                                 patch, demo fails with it, demo passes without
  seedcheck.py run <seeded-dir> [--props C01,C12] [--tier quick]
                                                 apply seeded/<id>/patch.diff to /repo, run checks,
                                                 undo, update meta.json
"""
import argparse
import json
import os
import subprocess
import sys

REPO = "/repo"
PY = "/venv/bin/python"


def sh(cmd, cwd=None, env=None, timeout=3000):
    e = dict(os.environ)
    if env:
        e.update(env)
    r = subprocess.run(cmd, shell=True, cwd=cwd, env=e, capture_output=True, text=True, timeout=timeout)
    return r.returncode, (r.stdout + r.stderr)


def confirm(wt, out):
    patch = os.path.join(out, "patch.diff")
    demo = os.path.join(out, "demo_test.py")
    env = {"PYTHONPATH": os.path.join(wt, "src")}
    rc, o = sh("git status --porcelain src", cwd=wt)
    if o.strip():
        sh("git checkout -- src", cwd=wt)
    res = {}
    rc, o = sh(f"{PY} -m pytest -q -p no:cacheprovider --no-cov {demo}", cwd=wt, env=env)
    res["demo_clean"] = (rc, o.strip().splitlines()[-1] if o.strip() else "")
    rc, o = sh(f"git apply {patch}", cwd=wt)
    if rc:
        res["apply"] = o
        print(json.dumps(res, indent=1))
        return 2
    try:
        rc, o = sh(f"{PY} -m pytest -q -p no:cacheprovider --no-cov --timeout=600 tests", cwd=wt, env=env)
        res["suite_patched"] = (rc, o.strip().splitlines()[-1] if o.strip() else "")
        rc, o = sh(f"{PY} -m pytest -q -p no:cacheprovider --no-cov {demo}", cwd=wt, env=env)
        res["demo_patched"] = (rc, o.strip().splitlines()[-1] if o.strip() else "")
        rc, o = sh("git diff --stat -- src", cwd=wt)
        res["files"] = o.strip().splitlines()
    finally:
        sh("git checkout -- src", cwd=wt)
    ok = (res["demo_clean"][0] == 0 and res["suite_patched"][0] == 0 and res["demo_patched"][0] != 0
          and "225 passed" in res["suite_patched"][1])
    res["confirmed"] = ok
    print(json.dumps(res, indent=1))
    return 0 if ok else 1


def run(sdir, props, tier):
    sdir = os.path.abspath(sdir)
    meta_p = os.path.join(sdir, "meta.json")
    meta = json.load(open(meta_p)) if os.path.exists(meta_p) else {}
    rc, o = sh("git status --porcelain", cwd=REPO)
    if o.strip():
        print("/repo is dirty; refusing")
        return 2
    rc, o = sh(f"git apply {os.path.join(sdir, 'patch.diff')}", cwd=REPO)
    if rc:
        print("patch does not apply to /repo:", o)
        return 2
    results = {}
    try:
        for pid in props:
            rc, o = sh(f"{PY} -B /verif/run.py check {pid} --tier {tier}")
            keys = sorted({l.strip().split("]")[0][1:] for l in o.splitlines() if l.strip().startswith("[")})
            results[pid] = {"rc": rc, "keys": keys}
            print(pid, rc, keys, flush=True)
    finally:
        sh("git checkout -- .", cwd=REPO)
        sh("rm -rf /verif/replays")
    meta.setdefault("checks_run", {})[tier] = results
    # from this run only: an earlier detection does not carry over to changed checks
    meta["detected_by"] = sorted(p for p, r in results.items() if r["rc"] == 1)
    meta["evaluated_on"] = sh("git rev-parse --short HEAD", cwd=REPO)[1].strip()
    json.dump(meta, open(meta_p, "w"), indent=1)
    return 0


def main():
    ap = argparse.ArgumentParser()
    sub = ap.add_subparsers(dest="cmd", required=True)
    c = sub.add_parser("confirm")
    c.add_argument("worktree")
    c.add_argument("out")
    r = sub.add_parser("run")
    r.add_argument("sdir")
    r.add_argument("--props", default=None)
    r.add_argument("--tier", default="quick")
    a = ap.parse_args()
    if a.cmd == "confirm":
        return confirm(a.worktree, a.out)
    meta_p = os.path.join(a.sdir, "meta.json")
    props = a.props.split(",") if a.props else [json.load(open(meta_p))["property"]]
    return run(a.sdir, props, a.tier)


if __name__ == "__main__":
    sys.exit(main())
