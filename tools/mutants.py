"""Catalogue of hand-written property-breaking changes (DESIGN.md section 10)."""
S = "src/redress/policy/state.py"
H = "src/redress/policy/retry_helpers.py"
SC = "src/redress/policy/runner/sync_core.py"
AC = "src/redress/policy/runner/async_core.py"

MUTANTS = [
 dict(name="c01-unknown-cap-result", props=["C01"], edits=[(S,
   "self.unknown_attempts > self.policy.max_unknown_attempts",
   'self.unknown_attempts > self.policy.max_unknown_attempts + (1 if cause == "result" else 0)')]),
 dict(name="c01-range-plus-one-async", props=["C01", "C03", "C12"], edits=[(AC,
   "for attempt in range(1, policy.max_attempts + 1):", "for attempt in range(1, policy.max_attempts + 2):")], count=0),
 dict(name="c02-elapsed-wall", props=["C02"], edits=[(S,
   "return timedelta(seconds=time.monotonic() - self.start_mono)",
   "return timedelta(seconds=time.time() - self._start_wall)"),
   (S, "self.start_mono = time.monotonic()", "self.start_mono = time.monotonic()\n        self._start_wall = time.time()")]),
 dict(name="c02-no-clamp", props=["C02", "C05"], edits=[(S,
   "        sleep_s = min(sleep_s, remaining_s)\n", "")]),
 dict(name="c02-remaining-lt", props=["C02", "C03"], edits=[(S, "if remaining_s <= 0:", "if remaining_s < 0:")]),
 dict(name="c02-no-postsleep-check", props=["C02"], edits=[(H,
   "    if state.elapsed() > state.policy.deadline:\n        state.last_stop_reason = StopReason.DEADLINE_EXCEEDED",
   "    if False:\n        state.last_stop_reason = StopReason.DEADLINE_EXCEEDED")]),
 dict(name="c03-revert-f1", props=["C03"], edits=[(S,
   "        if attempt >= self.policy.max_attempts:\n            # Final", "        if False:\n            # Final")]),
 dict(name="c03-budget-before-deadline", props=["C03"], edits=[(S,
   "        strategy = self.policy._select_strategy(klass)\n",
   "        if self.policy.budget is not None and not self.policy.budget.consume():\n            self.last_stop_reason = StopReason.BUDGET_EXHAUSTED\n            return _RetryDecision(\"raise\")\n        strategy = self.policy._select_strategy(klass)\n"),
   (S, "        if self.policy.budget is not None and not self.policy.budget.consume():\n            self.last_stop_reason = StopReason.BUDGET_EXHAUSTED\n            self.emit(", "        if False:\n            self.emit(")]),

 dict(name="c05-prefer-default", props=["C05"], edits=[("src/redress/policy/base.py",
   "return self._strategies.get(klass, self._default_strategy)",
   "return self._default_strategy or self._strategies.get(klass)")]),
 dict(name="c05-prev-raw", props=["C05"], edits=[(S, "        sleep_s = strategy(ctx)\n",
   "        sleep_s = strategy(ctx)\n        raw_sleep = sleep_s\n"), (S, "        self.prev_sleep = sleep_s\n", "        self.prev_sleep = raw_sleep\n")]),
 dict(name="c05-rewrap-classification", props=["C05"], edits=[(S,
   "        ctx = _build_backoff_context(\n            attempt=attempt,\n            classification=classification,",
   "        ctx = _build_backoff_context(\n            attempt=attempt,\n            classification=Classification(klass=klass),")]),
 dict(name="c05-attempt-off-by-one-async", props=["C05", "C12"], edits=[(AC,
   "decision = state.handle_result(result, classification, attempt)", "decision = state.handle_result(result, classification, attempt - 1)")], count=0),

 dict(name="c04-stale-exception", props=["C04", "C11"], edits=[(S,
   "            self.last_result = result\n            self.last_exc = None\n", "            self.last_result = result\n"),
   (H, '    if not ok and state.last_cause == "exception":\n        last_exception = state.last_exc',
       '    if not ok and state.last_exc is not None:\n        last_exception = state.last_exc')]),
 dict(name="c04-substitute-exception", props=["C04"], edits=[(SC,
   "                raise_scheduled(action)\n            raise\n", "                raise_scheduled(action)\n            raise type(exc)(*exc.args) from None\n")]),
 dict(name="c04-lost-traceback-async", props=["C04"], edits=[(AC,
   "                raise_scheduled(action)\n            raise\n", "                raise_scheduled(action)\n            raise exc.with_traceback(None)\n")]),
 dict(name="c11-attempts-off", props=["C11"], edits=[(SC,
   "            attempt_state.started = True\n            attempts = attempt\n", "            attempt_state.started = True\n            attempts = attempt - 1 if attempt > 2 else attempt\n")]),
 dict(name="c11-revert-f7", props=["C11"], edits=[("src/redress/policy/policy.py", "            attempts = 1\n", "")]),
 dict(name="c04-scheduled-last-exc-dropped", props=["C04"], edits=[("src/redress/policy/runner/logic.py",
   "            last_exception=state.last_exc if not for_result else None,", "            last_exception=None,")]),
]
