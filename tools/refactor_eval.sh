#!/bin/bash
# run every quick check against one behaviour-preserving refactoring
p=$1; k=$2
wt=/tmp/seed/$p
git -C $wt checkout -q -- .
git -C $wt apply $wt/out/$k/patch.diff || { echo "$p-$k NOAPPLY"; exit; }
for i in $(seq -w 1 20); do
  out=$(VERIF_REPO_SRC=$wt/src /venv/bin/python -B /verif/run.py check C$i --tier quick --workers 5 2>&1)
  rc=$?
  if [ $rc -ne 0 ]; then echo "$p-$k C$i rc=$rc $(echo "$out" | grep -m1 '^  \[' | cut -c1-200) $(echo "$out" | grep -m1 HARNESS | cut -c1-160)"; fi
done
echo "$p-$k done"
git -C $wt checkout -q -- .
