#!/bin/bash
# official evaluation of the stored changes: apply each seeded/<id>/patch.diff to /repo, run the quick check of its property
# (plus the checks named below for changes that violate another property), undo; results go to each meta.json and seeded/INDEX.md.
# /repo must be clean; nothing here is ever committed to /repo.  Takes about two hours.
cd /verif
for d in seeded/C??-*/; do
  sid=$(basename $d); c=${sid%-*}
  props=$c
  [ "$sid" = "C10-1" ] && props="C10,C17"
  [ "$sid" = "C03-2" ] && props="C03,C10"
  [ "$sid" = "C03-1" ] && props="C03,C16"
  [ "$sid" = "C12-2" ] && props="C12,C09"
  [ "$sid" = "C07-2" ] && props="C07"
  [ "$sid" = "C17-3" ] && props="C17"
  [ "$sid" = "C20-4" ] && props="C20,C05"
  [ "$sid" = "C03-3" ] && props="C03,C13"
  [ "$sid" = "C07-3" ] && props="C07,C06"
  [ "$sid" = "C01-4" ] && props="C01,C12"
  [ "$sid" = "C07-6" ] && props="C07,C09"
  [ "$sid" = "C07-12" ] && props="C07,C09"
  [ "$sid" = "C06-11" ] && props="C06,C17"
  [ "$sid" = "C08-11" ] && props="C08,C17"
  [ "$sid" = "C07-14" ] && props="C07,C08"
  [ "$sid" = "C05-16" ] && props="C05,C16"
  [ "$sid" = "C07-18" ] && props="C07,C09"
  [ "$sid" = "C10-17" ] && props="C10,C17"
  [ "$sid" = "C14-18" ] && props="C14,C07"
  [ "$sid" = "C17-6" ] && continue
  echo "== $sid"
  python3 tools/seedcheck.py run $d --props $props
done
python3 tools/seedindex.py
