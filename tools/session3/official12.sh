#!/bin/bash
cd /verif
for d in seeded/C??-21 seeded/C??-22 seeded/C08-13 seeded/C13-17; do
  sid=$(basename $d); c=${sid%-*}
  echo "== $sid"
  python3 tools/seedcheck.py run $d --props $c
done
echo OFFICIAL12-DONE
