#!/bin/bash
# usage: integrate.sh Cxx [extra props]  -> confirm both changes, run the property's quick check against the patched worktree
pid=$1; extra=$2
wt=/tmp/seed/$pid
cd /verif
for k in ${KS:-19 20}; do
  out=$wt/out/$k
  [ -f $out/patch.diff ] || { echo "$pid-$k: no patch"; continue; }
  python3 tools/seedcheck.py confirm $wt $out > $out/confirm.json 2>&1
  ok=$(python3 -c "import json,sys;print(json.load(open('$out/confirm.json')).get('confirmed'))" 2>/dev/null)
  echo "$pid-$k confirmed=$ok"
  [ "$ok" = "True" ] || continue
  (cd $wt && git apply $out/patch.diff)
  for p in $pid $extra; do
    VERIF_REPO_SRC=$wt/src /venv/bin/python -B run.py check $p --tier quick > $out/check_$p.log 2>&1
    echo "  $pid-$k check $p rc=$? $(grep -o '^\s*\[[a-z0-9.-]*\]' $out/check_$p.log | sort -u | tr -d ' \n')"
  done
  (cd $wt && git checkout -- src)
done
