#!/bin/bash
rid=$1; p=${rid%-*}
wt=/tmp/seed/$p
patch=/verif/seeded-refactors/$rid/patch.diff
files=$(grep '^+++ b/' $patch)
checks="$p"
case "$files" in *policy/*) checks="$checks C04 C05 C09";; esac
case "$files" in *circuit.py*) checks="$checks C06 C08 C09";; esac
case "$files" in *budget.py*) checks="$checks C10";; esac
case "$files" in *strategies.py*) checks="$checks C18";; esac
case "$files" in *classify.py*|*extras/*) checks="$checks C19 C20";; esac
checks=$(echo $checks | tr ' ' '\n' | sort -u | tr '\n' ' ')
git -C $wt checkout -q -- .
git -C $wt apply $patch || { echo "$rid NOAPPLY"; exit; }
for c in $checks; do
  out=$(VERIF_REPO_SRC=$wt/src /venv/bin/python -B /verif/run.py check $c --tier quick 2>&1)
  rc=$?
  if [ $rc -ne 0 ]; then echo "$rid $c rc=$rc $(echo "$out" | grep -m1 '^  \[' | cut -c1-220) $(echo "$out" | grep -m1 -i 'harness\|Traceback' | cut -c1-160)"; fi
done
echo "$rid done ($checks)"
git -C $wt checkout -q -- .
