import json, os, shutil
S = {
"C01-19": ("Retry-After 'later than the deadline' guard placed as the first arm of the stop chain; hinted failures skip the per-class cap check", "per-class cap on a retryable class, classifier answering Classification(K, retry_after_s=...)"),
"C01-20": ("RetryOutcome.__post_init__ rejects cause='result' with last_result None; execute() catches the ValueError as an operation failure and invokes the operation again", "execute(), result classifier rejecting a None value, classifier mapping ValueError to a retryable class"),
"C02-19": ("sync sleeper restarted with the full delay after InterruptedError", "a sleeper raising InterruptedError part-way through a backoff"),
"C02-20": ("CONCURRENCY retries get additive jitter after the deadline cap", "CONCURRENCY failure whose strategy answer is within 10% of the remaining time"),
"C03-19": ("non-retryable classes become retryable when the strategy table has an entry for them", "strategies mapping containing PERMANENT/AUTH/PERMISSION, failure of that class"),
"C03-20": ("UNKNOWN borrows TRANSIENT's strategy when it has none", "strategy=None, table with TRANSIENT but no UNKNOWN entry, UNKNOWN failure"),
"C04-19": ("sync attempt timeout on a daemon thread + one-slot mailbox; a returned exception instance is raised", "sync call(), attempt_timeout_s, attempt returning a BaseException instance as its value"),
"C04-20": ("handle_exception unwraps single-member exception groups and records the member as last_exc", "final attempt raises a one-member exception group, handler answers DEFER, call()"),
"C05-19": ("backoff cap leaves room for the next attempt's timeout (remaining - attempt_timeout_s)", "attempt_timeout_s configured, strategy answer above remaining - attempt_timeout_s"),
"C05-20": ("sync sleep cut into 1 s slices when abort_if is set", "sync runner, abort_if supplied, delay above 1 s"),
"C06-19": ("per-class buckets pre-allocated once; _clear_failures() deletes them for good", "class_thresholds, one full open/half-open/close cycle, then class failures reaching the class threshold"),
"C06-20": ("rolling 33-slice counters replace timestamp deques; failures age per slice", "a failure older than the window by less than window_s/32"),
"C07-19": ("watchdog: a probe in flight only blocks others for another recovery_timeout_s", "clock advancing by recovery_timeout_s during the probe, another call arriving"),
"C07-20": ("lock-free fast paths in allow(); the locked slow path branches on the earlier unlocked state read", "two threads both reading open-and-due, one passing allow() completely in between"),
"C08-19": ("per-class thresholds honoured while half-open: a probe failure below the class threshold returns None and keeps the probe flag", "class_thresholds {K: n>=2}, half-open probe failing with class K"),
"C08-20": ("record_failure(started_at=ctx.start) ignores 'stragglers'; ctx.start is time.monotonic(), _opened_at is the breaker's clock", "breaker clock with readings above time.monotonic(), failing half-open probe"),
"C09-19": ("admission moved inside the try of Policy.call / AsyncPolicy.call: an exception escaping the admission announcement is settled twice", "call(), half-open probe, hook raising KeyboardInterrupt / CancelledError on circuit_half_open"),
"C09-20": ("breaker class taken from the latest attempt-end (AttemptClassProbe) instead of classifying the final exception", "call() with retry and breaker, a retried attempt of class A, then an exception raised outside an attempt body"),
"C10-19": ("Budget stores (timestamp, cost) entries with a running total; the admission test still counts entries", "consume(cost >= 2) followed by further grants in the same window"),
"C10-20": ("early return for server-paced backoff above the budget check: such retries never charge the budget", "classifier returning retry_after_s with a strategy honouring it, shared budget"),
"C11-19": ("async runner awaits an awaitable return value inside the attempt", "async operation returning an awaitable object (Task / Future handle)"),
"C11-20": ("async execute() reports a CancelledError from the operation unless its own task is being cancelled", "async execute(), CancelledError raised by the operation while current_task().cancelling() == 0"),
"C12-19": ("async call() loses last_result when a result-based failure is deferred", "async call-style entry point, rejected result, handler answering DEFER"),
"C12-20": ("sync runner subtracts handler / before_sleep time from the backoff sleep", "sync entry point, clock advancing more than 1 ms inside the handler or hook"),
"C13-19": ("async runner skips asyncio.sleep(0) for zero-length backoffs with the stock sleeper", "async, default sleeper, strategy answering 0, cancellation requested while the attempt runs"),
"C13-20": ("abort_if duck-typed on is_set: event-like callables are polled through is_set()", "abort_if is a callable object that also has an is_set attribute answering differently"),
"C14-19": ("breaker events tagged with the breaker's live state instead of the state at the decision", "thread interleaving: another thread's probe completes between allow() and the event emission"),
"C14-20": ("a deferral whose delay was capped at the remaining deadline is announced as deadline_exceeded", "DEFER handler, delay >= remaining deadline, call()"),
"C15-19": ("swallowed hook errors are logged using self.last_class.name inside the guard's except handler", "hook raising at an event emitted before any failure is classified (success on first attempt, abort before first attempt)"),
"C15-20": ("Policy.call reuses the class noted by a wrapped on_metric (noted only after the user's hook returns)", "on_metric raising only at the terminal event, error class changing between attempts, retry + breaker, call()"),
"C16-19": ("Retry-After floor applied to the sleeper's argument only", "RATE_LIMIT with a hint above the delay of a strategy that ignores hints"),
"C16-20": ("@retry wrappers unwrap RetryExhaustedError into last_exception", "@retry decorator, DEFER handler, exception-caused failure"),
"C17-19": ("Budget: the creating thread skips the lock until a second thread appears", "creator thread racing the first foreign consume() between the capacity check and the append"),
"C17-20": ("CircuitBreaker releases the lock around the injected clock call after the state check", "pause at the clock call inside record_failure, racing failures (threshold 1)"),
"C18-19": ("decorrelated_jitter clamps the window instead of the draw", "max_s < base_s (decorrelated_jitter(max_s=0.0))"),
"C18-20": ("AdaptiveStrategy returns the fallback value unscaled when a Retry-After hint is present", "hint on the context and min_multiplier > 1"),
"C19-19": ("_classify returns UNKNOWN for anything that is not an Exception instance", "BaseException-only type carrying a mapped status/code or a keyword name"),
"C19-20": ("_SQLSTATE_RE gets re.IGNORECASE: an ordinary five-letter word before the code is taken", "documented SQLSTATE in a string arg preceded by a five-letter lower-case word"),
"C20-19": ("hint discovery through inspect.getattr_static hides descriptor-backed carriers", "retry_after / headers / response supplied by a property or __slots__"),
"C20-20": ("HTTP-date parse guard narrowed to (TypeError, ValueError)", "date-shaped value with a numeric field larger than a C long (OverflowError)"),
}
head = os.popen("git -C /repo rev-parse --short HEAD").read().strip()
for sid, (summ, needs) in S.items():
    pid, k = sid.split("-")
    src = f"/tmp/seed/{pid}/out/{k}"
    dst = f"/verif/seeded/{sid}"
    conf = json.load(open(f"{src}/confirm.json"))
    assert conf["confirmed"], sid
    os.makedirs(dst, exist_ok=True)
    for f in ("patch.diff", "demo_test.py", "notes.md"):
        if os.path.exists(f"{src}/{f}"):
            shutil.copy(f"{src}/{f}", f"{dst}/{f}")
    meta = {"property": pid, "summary": summ, "needs": needs,
            "origin": "fresh sub-agent given only the property text, a scratch worktree and one-line descriptions of the eighteen earlier changes for that property (wave 11)",
            "confirmed": {"repository_suite_with_change": conf["suite_patched"][1], "demo_with_change": "fails",
                          "demo_without_change": "passes",
                          "how": f"tools/seedcheck.py confirm <worktree> <out-dir> on the tree at /repo HEAD {head}"}}
    json.dump(meta, open(f"{dst}/meta.json", "w"), indent=1)
print(len(S))
