#!/bin/bash
cd /verif
for d in seeded/C??-19 seeded/C??-20; do
  sid=$(basename $d); c=${sid%-*}
  props=$c
  [ "$sid" = "C07-20" ] && props="C07,C17"
  echo "== $sid"
  python3 tools/seedcheck.py run $d --props $props
done
echo OFFICIAL11-DONE
