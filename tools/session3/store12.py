import json, os, shutil
S = {
"C02-21": ("failure timestamped before classification: one clock reading serves the deadline check and the remaining-time computation", "classifier that takes time, strategy asking for more than truly remains"),
"C02-22": ("gaps of more than 600 s between two monotonic readings are discounted as host suspends", "deadline above 10 minutes, a single attempt or backoff longer than 600 s"),
"C03-21": ("a retry_after_s hint stands in for a missing strategy", "strategy=None, table lacking the failing class, hinted Classification"),
"C03-22": ("budget consulted before the final-attempt short-circuit: a token is spent on the last permitted attempt", "Budget, run ending on the global attempt cap"),
"C04-21": ("a nested RetryExhaustedError raised by the attempt is unwrapped into its last_exception", "attempt raising a RetryExhaustedError whose last_exception is set"),
"C04-22": ("result verdict reused when the same object is returned again", "consecutive attempts returning the very same object whose verdict changes"),
"C05-21": ("one clock reading for deadline check and remaining: time spent in the strategy object's record_failure is not counted", "strategy object with a record_failure hook that takes time, answer above the real remainder"),
"C05-22": ("next_sleep_s raised to the breaker's recovery timeout when the deferred failure opened it", "Policy with retry and breaker, execute(), DEFER, failure tripping the breaker, delay below recovery timeout"),
"C07-21": ("transition helpers clear only the global failure history, never the per-class one", "class_thresholds, trip, successful probe, one more class failure inside the window"),
"C07-22": ("re-entrant probe: a half-open rejection in the probe's own context is turned into an admission", "second call issued from the probe's own context (nested call, task created by the probe)"),
"C08-21": ("retry-less execute() moved out of the settling try/finally", "half-open probe through retry-less execute() ending with GeneratorExit / a custom BaseException"),
"C08-22": ("context managers call breaker.allow() on entry to fail fast", "entering policy.context() while the breaker is open and due / half-open with a free slot"),
"C09-21": ("ctx.settled set only after the breaker call and the event emission", "state-changing record whose breaker event makes a hook raise KeyboardInterrupt / SystemExit / CancelledError"),
"C09-22": ("classification stamped on the exception instance and reused by classify_for_breaker", "retry-less breaker policy whose final exception already went through another policy's retry loop"),
"C11-21": ("failures with a RetryExhaustedError in their __cause__ chain escape execute()", "operation exception raised `from` a nested RetryExhaustedError"),
"C11-22": ("retry outcome rebuilt with the policy-level elapsed time drops next_sleep_s", "Policy / AsyncPolicy with retry and breaker, DEFER"),
"C12-21": ("sync execute() re-polls abort_if after a terminal classification", "sync execute(), final classification, abort_if turning true while the failure is classified"),
"C12-22": ("async runners stretch the backoff sleep up to the Retry-After hint", "async entry point, hinted Classification, strategy returning less than the hint"),
"C13-21": ("abort predicates get the attempt index if their signature can take a positional argument", "predicate with an optional positional parameter"),
"C13-22": ("a raising predicate is disabled for the rest of the run", "execute(), predicate raising an ordinary exception at a pre-attempt poll"),
"C15-21": ("hook guards re-raise a TypeError whose traceback has no frame below emit", "hook failing at the call boundary: wrong-arity or C-implemented callable (on_log=int)"),
"C15-22": ("swallowed before_sleep errors are reported with warnings.warn inside the except handler", "raising before_sleep hook and a process-wide warnings filter of 'error'"),
"C16-21": ("for_result block moved above the ABORTED check in determine_action_from_outcome", "result classifier, ABORT handler, call()"),
"C16-22": ("async sub-millisecond backoff fast path: asyncio.sleep(0) instead of the configured sleeper", "async runner, SLEEP outcome, 0 < delay < 1 ms"),
}
head = os.popen("git -C /repo rev-parse --short HEAD").read().strip()
for sid, (summ, needs) in S.items():
    pid, k = sid.split("-")
    src = f"/tmp/seed/{pid}/out/{k}"
    dst = f"/verif/seeded/{sid}"
    conf = json.load(open(f"{src}/confirm.json"))
    assert conf["confirmed"], sid
    os.makedirs(dst, exist_ok=True)
    for f in ("patch.diff", "demo_test.py", "notes.md"):
        if os.path.exists(f"{src}/{f}"):
            shutil.copy(f"{src}/{f}", f"{dst}/{f}")
    meta = {"property": pid, "summary": summ, "needs": needs,
            "origin": "fresh sub-agent given only the property text, a scratch worktree and one-line descriptions of the twenty earlier changes for that property (wave 12)",
            "confirmed": {"repository_suite_with_change": conf["suite_patched"][1], "demo_with_change": "fails",
                          "demo_without_change": "passes",
                          "how": f"tools/seedcheck.py confirm <worktree> <out-dir> on the tree at /repo HEAD {head}"}}
    if sid == "C09-21":
        meta["rebased"] = "written against bbad79f; re-based by hand onto f82d287 (the F14 repair changed record_cancel), same mechanism, re-confirmed"
    json.dump(meta, open(f"{dst}/meta.json", "w"), indent=1)
print(len(S))
