#!/bin/bash
# usage: recheck.sh Cxx k [props]   (already confirmed): apply in worktree, run checks, undo
pid=$1; k=$2; props=${3:-$pid}
wt=/tmp/seed/$pid; out=$wt/out/$k
cd /verif
(cd $wt && git checkout -q -- src && git apply $out/patch.diff)
for p in $props; do
  VERIF_REPO_SRC=$wt/src /venv/bin/python -B run.py check $p --tier quick > $out/check_$p.log 2>&1
  echo "  $pid-$k check $p rc=$? $(grep -o '^\s*\[[a-z0-9.-]*\]' $out/check_$p.log | sort -u | tr -d ' \n')"
done
(cd $wt && git checkout -q -- src)
