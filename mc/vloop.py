"""A virtual asyncio event loop: stock Tasks, Futures, wait_for and timeouts on the owned clock.

No selector, no threads, no real time: ``step()`` runs one iteration (all callbacks that are
ready now); when nothing is ready the virtual clock jumps to the next timer.  The harness decides
between iterations whether to inject a cancellation, so every point at which the task under test
is suspended is a choice point.
"""

from __future__ import annotations

import asyncio
import heapq
from asyncio import events

from .kernel import HarnessError


class VLoop(asyncio.BaseEventLoop):
    def __init__(self, clock):
        super().__init__()
        self._vclock = clock
        self.steps = 0
        self.unhandled = []
        self.set_exception_handler(self._on_exception)

    # -- owned time ---------------------------------------------------------------------------
    def time(self):
        return self._vclock.now

    # -- BaseEventLoop plumbing we do not need ---------------------------------------------
    def _process_events(self, event_list):
        pass

    def _write_to_self(self):
        pass

    def _on_exception(self, loop, context):
        self.unhandled.append(context.get("message"))

    # -- stepping -------------------------------------------------------------------------------
    def _due_timers(self):
        sched = self._scheduled
        now = self.time()
        while sched and sched[0]._when <= now:
            h = heapq.heappop(sched)
            h._scheduled = False
            if not h._cancelled:
                self._ready.append(h)

    def idle(self):
        self._due_timers()
        return not self._ready and not any(not h._cancelled for h in self._scheduled)

    def step(self):
        """Run one loop iteration.  Returns False when there is nothing left to run."""
        self._due_timers()
        if not self._ready:
            live = [h for h in self._scheduled if not h._cancelled]
            if not live:
                return False
            nxt = min(h._when for h in live)
            if nxt > self._vclock.now:
                self._vclock.now = nxt
            self._due_timers()
        self.steps += 1
        if self.steps > 10000:
            raise HarnessError("virtual loop ran 10000 iterations (livelock?)")
        n = len(self._ready)
        prev = events._get_running_loop()
        events._set_running_loop(self)
        try:
            for _ in range(n):
                h = self._ready.popleft()
                if not h._cancelled:
                    h._run()
        finally:
            events._set_running_loop(prev)
        return True

    def pause(self, seconds):
        """Awaitable that completes after ``seconds`` of virtual time (0 = next iteration)."""
        fut = self.create_future()
        self.call_later(max(0.0, seconds), _set_if_pending, fut)
        return fut


def _set_if_pending(fut):
    if not fut.done():
        fut.set_result(None)


def run_task(loop, coro, between=None):
    """Drive ``coro`` as a Task on the virtual loop until it is done.

    ``between(task, iteration)`` is called before every iteration while the task is pending; it
    may cancel the task (the harness's injection point).  Returns the finished Task."""
    prev = events._get_running_loop()
    events._set_running_loop(loop)
    try:
        task = loop.create_task(coro)
    finally:
        events._set_running_loop(prev)
    i = 0
    while not task.done():
        if between is not None:
            between(task, i)
        if not loop.step():
            if task.done():
                break
            raise HarnessError("virtual loop went idle while the task under test is pending")
        i += 1
    # let cancelled children settle (bounded)
    for _ in range(50):
        if not loop.step():
            break
    return task
