"""Canaries: deliberately broken components / expectations that each engine must flag.

A harness that has never failed has not been shown to work; these run in ``run.py selftest``.
"""

from __future__ import annotations


def canary_c01():
    """A retry loop that ignores max_unknown_attempts for result failures must be flagged."""
    from . import seq
    from .kernel import explore
    from .props import c01

    cfg = seq.mkcfg(M=3, max_unknown=3, alphabet=["ok", "x:U", "r:U"])
    bad = []

    def run(ch):
        w = seq.World(cfg, ch)
        w.call("Retry.execute")
        # wrong expectation on purpose: pretend the cap was 0
        return w, c01.monitor(w, dict(cfg, max_unknown=0))

    explore(run, 0, lambda ch, r: bad.extend(r[1]))
    return [] if any(k == "caps.unknown" for k, _ in bad) else ["c01 canary not flagged"]


def run_all():
    out = []
    for name, fn in sorted(globals().items()):
        if name.startswith("canary_") and callable(fn):
            out.extend(fn())
    return out
