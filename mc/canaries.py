"""Canaries: deliberately broken components / expectations that each engine must flag.

A harness that has never failed has not been shown to work; these run in ``run.py selftest``.
"""

from __future__ import annotations


def canary_c01():
    """A retry loop that ignores max_unknown_attempts for result failures must be flagged."""
    from . import seq
    from .kernel import explore
    from .props import c01

    cfg = seq.mkcfg(M=3, max_unknown=3, alphabet=["ok", "x:U", "r:U"])
    bad = []

    def run(ch):
        w = seq.World(cfg, ch)
        w.call("Retry.execute")
        # wrong expectation on purpose: pretend the cap was 0
        return w, c01.monitor(w, dict(cfg, max_unknown=0))

    explore(run, 0, lambda ch, r: bad.extend(r[1]))
    return [] if any(k == "caps.unknown" for k, _ in bad) else ["c01 canary not flagged"]


def canary_c17():
    """A breaker whose lock is a no-op must be flagged at pre-emption bound 1."""
    import contextlib

    from . import threads as T

    prog = {"name": "canary lock-free allow||allow", "component": "breaker",
            "cfg": {"threshold": 1, "window": 8, "recovery": 2},
            "setup": [("failure", "T"), ("tick", 2)], "threads": [[("allow",)], [("allow",)]]}
    orig = T.install_model_locks

    def no_locks(obj, sched):
        for name, val in list(vars(obj).items()):
            # (locks created through the threading proxy are ModelLocks already)
            if isinstance(val, T._LOCK_TYPES) or isinstance(val, T.ModelLock):
                setattr(obj, name, contextlib.nullcontext())
        return 0

    T.install_model_locks = no_locks
    try:
        r = T.explore_program(prog, 1, "line")
    finally:
        T.install_model_locks = orig
    return [] if r["viol_keys"].get("c17.not-linearizable") else ["c17 canary (lock-free) not flagged"]


def canary_c06():
    """The reference must reject a breaker that opens one failure early."""
    from . import statebfs

    cfg = {"threshold": 2, "window": 4, "recovery": 2, "class_thresholds": {}, "trip_on": ["T"]}
    orig = statebfs.make_breaker

    def early(c, clock):
        return orig(dict(c, threshold=c["threshold"] - 1), clock)

    statebfs.make_breaker = early
    try:
        r = statebfs.bfs_raw(cfg, 3, ["T", "U"])
    finally:
        statebfs.make_breaker = orig
    return [] if r["nviol"] else ["c06 canary (early opening) not flagged"]


def canary_c07():
    """A breaker that forgets the probe flag in half-open must diverge from the reference."""
    from redress.circuit import CircuitBreaker, _BreakerDecision

    from . import statebfs

    orig = CircuitBreaker.allow

    def bad_allow(self):
        d = orig(self)
        if d.allowed and d.state.value == "half_open" and d.event is None:
            self._probe_in_flight = False
        return d

    CircuitBreaker.allow = bad_allow
    try:
        cfg = {"threshold": 1, "window": 4, "recovery": 2, "class_thresholds": {}, "trip_on": ["T"]}
        r = statebfs.bfs_identity(cfg, 7, 2)
    finally:
        CircuitBreaker.allow = orig
    del _BreakerDecision
    return [] if r["viol_keys"].get("c07.diverges") or r["viol_keys"].get("c07.admission") \
        else ["c07 canary (probe flag forgotten) not flagged"]


def canary_c10():
    """A budget that prunes with a doubled window must diverge from the reference."""
    from redress.budget import Budget

    from . import statebfs

    orig = Budget._prune

    def bad_prune(self, now):
        cutoff = now - 2 * self.window_s
        while self._events and self._events[0] <= cutoff:
            self._events.popleft()

    Budget._prune = bad_prune
    try:
        r = statebfs.bfs_budget({"max": 1, "window": 2}, 5)
    finally:
        Budget._prune = orig
    return [] if r["nviol"] else ["c10 canary (doubled window) not flagged"]


def canary_c03():
    """With the monitor told max_attempts is one lower, the last retry must be flagged."""
    from . import seq
    from .kernel import explore
    from .props import c03

    cfg = seq.mkcfg(M=3, alphabet=["x:T"], max_unknown=None)
    bad = []

    def run(ch):
        w = seq.World(cfg, ch)
        w.call("Retry.execute")
        return w, c03.monitor(w, dict(cfg, M=2))

    explore(run, 0, lambda ch, r: bad.extend(r[1]))
    return [] if any(k.startswith("c03.") for k, _ in bad) else ["c03 canary not flagged"]


def canary_c15():
    """If the library stopped guarding on_metric, the differential must notice."""
    from redress.policy import state as st

    from . import seq
    from .kernel import explore
    from .props import c15

    orig = st._RetryState.emit

    def unguarded(self, event, attempt, sleep_s, *a, **kw):
        if self.on_metric is not None and event == "retry":
            self.on_metric(event, attempt, sleep_s, {})
        return orig(self, event, attempt, sleep_s, *a, **kw)

    st._RetryState.emit = unguarded
    bad = []
    try:
        cfg = dict(M=2, alphabet=["x:T"], max_unknown=None)
        explore(lambda ch: c15.run_diff(cfg, "Retry.execute", ch, "quick"), 0,
                lambda ch, r: bad.extend(r[1]))
    finally:
        st._RetryState.emit = orig
    del seq
    return [] if bad else ["c15 canary (unguarded metric hook) not flagged"]


def canary_vloop():
    """The virtual event loop must deliver an attempt timeout and a task cancellation."""
    from . import seq
    from .kernel import Chooser

    cfg = seq.mkcfg(M=2, alphabet=["x:T"], durs=[3], attempt_timeout=2, loop=True,
                    sleeper="call", sleeper_async=True, max_unknown=None)
    w = seq.World(cfg, Chooser(()))
    w.call("AsyncRetry.execute")
    cuts = [r for r in w.trace if r[0] == "op" and r[2] == "cut"]
    cls = [r for r in w.trace if r[0] == "classify" and r[1] == "foreign:TimeoutError"]
    return [] if len(cuts) == 2 and len(cls) == 2 else [f"vloop canary: {w.trace}"]


def run_all():
    out = []
    for name, fn in sorted(globals().items()):
        if name.startswith("canary_") and callable(fn):
            out.extend(fn())
    return out
