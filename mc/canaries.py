"""Canaries: deliberately broken components / expectations that each engine must flag.

A harness that has never failed has not been shown to work; these run in ``run.py selftest``.
"""

from __future__ import annotations


def canary_c01():
    """A retry loop that ignores max_unknown_attempts for result failures must be flagged."""
    from . import seq
    from .kernel import explore
    from .props import c01

    cfg = seq.mkcfg(M=3, max_unknown=3, alphabet=["ok", "x:U", "r:U"])
    bad = []

    def run(ch):
        w = seq.World(cfg, ch)
        w.call("Retry.execute")
        # wrong expectation on purpose: pretend the cap was 0
        return w, c01.monitor(w, dict(cfg, max_unknown=0))

    explore(run, 0, lambda ch, r: bad.extend(r[1]))
    return [] if any(k == "caps.unknown" for k, _ in bad) else ["c01 canary not flagged"]


def canary_c17():
    """A breaker whose lock is a no-op must be flagged at pre-emption bound 1."""
    import contextlib

    from . import threads as T

    prog = {"name": "canary lock-free allow||allow", "component": "breaker",
            "cfg": {"threshold": 1, "window": 8, "recovery": 2},
            "setup": [("failure", "T"), ("tick", 2)], "threads": [[("allow",)], [("allow",)]]}
    orig = T.install_model_locks

    def no_locks(obj, sched):
        for name, val in list(vars(obj).items()):
            if isinstance(val, T._LOCK_TYPES):
                setattr(obj, name, contextlib.nullcontext())
        return 0

    T.install_model_locks = no_locks
    try:
        r = T.explore_program(prog, 1, "line")
    finally:
        T.install_model_locks = orig
    return [] if r["viol_keys"].get("c17.not-linearizable") else ["c17 canary (lock-free) not flagged"]


def canary_c06():
    """The reference must reject a breaker that opens one failure early."""
    from . import statebfs

    cfg = {"threshold": 2, "window": 4, "recovery": 2, "class_thresholds": {}, "trip_on": ["T"]}
    orig = statebfs.make_breaker

    def early(c, clock):
        return orig(dict(c, threshold=c["threshold"] - 1), clock)

    statebfs.make_breaker = early
    try:
        r = statebfs.bfs_raw(cfg, 3, ["T", "U"])
    finally:
        statebfs.make_breaker = orig
    return [] if r["nviol"] else ["c06 canary (early opening) not flagged"]


def run_all():
    out = []
    for name, fn in sorted(globals().items()):
        if name.startswith("canary_") and callable(fn):
            out.extend(fn())
    return out
