"""What the caller must be told about the *final attempt* (C04 for call(), C11 for execute()).

Everything is derived from the observed trace: the operation invocations, the classifier
answers, the terminal event, the sleep-handler decisions.
"""

from __future__ import annotations

from .spec import TERMINAL_EVENTS, sanitise
from .tracelib import CANCEL_LABELS


class Final:
    __slots__ = ("n_ops", "last", "ok", "aborted", "deferred", "handler_abort", "reason",
                 "delay", "cancelled", "nested", "faulted", "alt_last", "abort_before_classify",
                 "fault_objs")


def analyse(cfg, call):
    f = Final()
    ops = call.ops
    f.n_ops = len(ops)
    f.last = ops[-1] if ops else None
    f.ok = bool(ops) and ops[-1].kind == "ok"
    f.cancelled = bool(ops) and ops[-1].kind in CANCEL_LABELS
    f.nested = bool(ops) and ops[-1].kind in ("nested",)
    # a raising observability hook (C15) does not excuse anything; other callback faults do
    f.faulted = any(r[0] == "fault" and r[1] not in ("before_sleep", "metric", "log")
                    for r in call.records)
    polled = any(r[0] == "poll" and r[1] for r in call.records)
    f.handler_abort = any(r[0] == "handler" and r[4] == "ABORT" for r in call.records)
    f.aborted = polled or f.handler_abort or (bool(ops) and ops[-1].kind == "abort")
    lastseg = call.segs[-1] if call.segs else call.pre
    f.deferred = any(r[0] == "handler" and r[4] == "DEFER" for r in lastseg)
    # the abort poll that sits between a failed attempt and its classification (don't-care)
    f.abort_before_classify = False
    f.alt_last = None
    if polled and ops and ops[-1].failed:
        # first poll after the failed attempt, before the library has processed the failure
        for r in lastseg:
            if r[0] == "poll":
                if r[1]:
                    f.abort_before_classify = True
                    prev = [o for o in ops[:-1] if o.failed]
                    f.alt_last = prev[-1] if prev else None
                break
            if r[0] in ("classify", "strategy", "metric", "consume", "handler", "sleep"):
                break
    f.reason = None
    for r in reversed(call.metrics()):
        if r[1] in TERMINAL_EVENTS:
            f.reason = dict(r[4]).get("stop_reason")
            break
    f.delay = None
    if f.deferred:
        retries = [r for r in lastseg if r[0] == "metric" and r[1] == "retry"]
        strat = [r for r in lastseg if r[0] == "strategy"]
        if retries:
            f.delay = retries[-1][3]
        elif strat and ops:
            from .spec import deadline_s
            f.delay = sanitise(strat[-1][10], deadline_s(cfg) - (ops[-1].t1 - call.t_start))
    return f


def check_call(cfg, call):
    """C04: what call() returns / raises."""
    v = []
    end = call.end
    if end is None or end[1] == "closed":
        return v
    f = analyse(cfg, call)
    if f.nested and not f.faulted and end[1] == "raise" and not f.aborted:
        # the attempt raised a (nested policy's) RetryExhaustedError: it is that attempt's own
        # exception and leaves call() as the same object
        if end[3] != f.last.obj:
            v.append(("c04.wrong-exception",
                      f"the last attempt raised a nested RetryExhaustedError (object {f.last.obj}); "
                      f"call() raised {end[2]} (object {end[3]})"))
        return v
    if f.faulted or f.cancelled or f.nested:
        return v
    last = f.last
    if end[1] == "ret":
        if not f.ok:
            v.append(("c04.returned-without-success",
                      f"call() returned although the last attempt was {last}"))
        elif end[2] != last.obj:
            v.append(("c04.wrong-value",
                      f"call() returned object {end[2]}, the successful attempt returned {last.obj}"))
        return v
    # raised
    _, _, tname, ident, det, tb = end
    if f.ok:
        v.append(("c04.raised-after-success", f"call() raised {tname} after a successful attempt"))
        return v
    if f.aborted:
        return v  # C13's business
    if last is None or not last.failed:
        return v
    if last.kind == "x" and not f.deferred and getattr(last, "timeout", False):
        if tname != "TimeoutError":
            v.append(("c04.wrong-exception", f"the last attempt was cut by attempt_timeout_s; "
                                             f"call() raised {tname} instead of TimeoutError"))
        return v
    if last.kind == "x" and not f.deferred:
        if ident != last.obj:
            v.append(("c04.wrong-exception",
                      f"call() raised {tname} (object {ident}); the last attempt raised object "
                      f"{last.obj} ({last.label})"))
        else:
            want_type = "TimeoutError" if last.label == "timeout" else "OpError"
            if tname != want_type and not (want_type == "OpError"
                                           and tname in ("FalsyOpError", "OpRuntimeError",
                                                         "FrozenOpError", "OpGroup")):
                v.append(("c04.exception-type", f"raised type {tname}, original {want_type}"))
            raised_n = sum(1 for o in call.ops if o.obj == last.obj)
            if tb is None or not tb[0] or tb[1] != raised_n:
                v.append(("c04.traceback",
                          f"traceback of the re-raised exception must end in the operation's raise "
                          f"site and contain it {raised_n} time(s) (once per raise of that object): "
                          f"(innermost is raise site, count) = {tb}"))
        return v
    # result-caused stop or deferral: RetryExhaustedError describing the final attempt
    if tname != "RetryExhaustedError" or det is None:
        v.append(("c04.expected-exhausted",
                  f"stop after {last.label} (deferred={f.deferred}) must raise "
                  f"RetryExhaustedError, got {tname}"))
        return v
    reason, attempts, lk, lexc, lres, nxt = det
    want_reason = "SCHEDULED" if f.deferred else f.reason
    # without a metric hook the terminal event is not observed: only a deferral is known
    if reason != want_reason and (cfg["metric"] or f.deferred):
        v.append(("c04.err-stop-reason", f"RetryExhaustedError.stop_reason={reason}, terminal "
                                         f"event says {want_reason}"))
    if attempts != f.n_ops:
        v.append(("c04.err-attempts", f"RetryExhaustedError.attempts={attempts}, operation was "
                                      f"invoked {f.n_ops} times"))
    if lk != last.klass:
        v.append(("c04.err-last-class", f"last_class={lk}, final failure class {last.klass}"))
    if last.kind == "r":
        if lres != last.obj or lexc is not None:
            v.append(("c04.err-last-result",
                      f"last_result={lres}, last_exception={lexc}; final attempt returned object "
                      f"{last.obj}"))
    elif getattr(last, "timeout", False):
        if lexc != "foreign:TimeoutError" or lres is not None:
            v.append(("c04.err-last-exception", f"last_exception={lexc} for an attempt cut by "
                                                f"attempt_timeout_s"))
    else:
        if lexc != last.obj or lres is not None:
            v.append(("c04.err-last-exception",
                      f"last_exception={lexc}, last_result={lres}; final attempt raised object "
                      f"{last.obj}"))
    if f.deferred:
        if nxt != f.delay:
            v.append(("c04.err-next-sleep", f"next_sleep_s={nxt}, applied delay {f.delay}"))
    elif nxt is not None:
        v.append(("c04.err-next-sleep", f"next_sleep_s={nxt} on a run that was not deferred"))
    return v


def check_execute(cfg, call, no_retry=False, allowed_fault_sites=("strategy", "classifier",
                                                                   "rclassifier", "sleeper")):
    """C11: the RetryOutcome returned by execute()."""
    v = []
    end = call.end
    if end is None or end[1] == "closed":
        return v
    f = analyse(cfg, call)
    last = f.last
    if end[1] == "raise":
        _, _, tname, ident, det, tb = end
        ok_to_raise = False
        if last is not None and (f.cancelled or f.nested) and ident == last.obj:
            ok_to_raise = True
        faults = [r for r in call.records if r[0] == "fault"]
        if faults and faults[-1][1] in allowed_fault_sites:
            ok_to_raise = True
        sleeps = [r for r in call.records if r[0] == "sleep"]
        if sleeps and sleeps[-1][3] == sleeps[-1][4] and tname in (
                "KeyboardInterrupt", "SystemExit", "CancelledError"):
            ok_to_raise = True
        if not ok_to_raise:
            v.append(("c11.raised", f"execute() raised {tname} (object {ident}) for a run whose "
                                    f"last attempt was {last}"))
        return v
    if end[1] != "outcome":
        v.append(("c11.no-outcome", f"execute() ended with {end[:3]}"))
        return v
    (_, _, ok, val, reason, attempts, lk, lexc, lres, cause, nxt, _tl, _tlsame) = end
    if f.cancelled or f.nested:
        v.append(("c11.swallowed", f"execute() returned an outcome although the operation raised "
                                   f"{last.label}"))
        return v
    if f.faulted:
        return v
    if ok != f.ok:
        v.append(("c11.ok", f"outcome.ok={ok} but the final attempt was {last}"))
        return v
    if attempts != f.n_ops and not (no_retry and f.n_ops == 0):
        v.append(("c11.attempts", f"outcome.attempts={attempts}, operation invoked {f.n_ops} times"))
    if ok:
        if val != last.obj:
            v.append(("c11.value", f"outcome.value is object {val}, final attempt returned {last.obj}"))
        for name, x in (("stop_reason", reason), ("last_class", lk), ("last_exception", lexc),
                        ("last_result", lres), ("cause", cause), ("next_sleep_s", nxt)):
            if x is not None:
                v.append(("c11.ok-extra", f"successful outcome carries {name}={x}"))
        return v
    if val is not None:
        v.append(("c11.value", f"failed outcome carries value {val}"))
    # stop reason
    if not no_retry:
        if f.deferred and not f.aborted:
            want = "SCHEDULED"
        elif f.aborted:
            want = "ABORTED"
        else:
            want = f.reason
        if reason != want and (cfg["metric"] or want in ("SCHEDULED", "ABORTED")):
            v.append(("c11.stop-reason", f"outcome.stop_reason={reason}, run stopped because {want}"))
    # description of the final failure
    candidates = []
    if last is not None and last.failed:
        candidates.append(last)
        if f.abort_before_classify:
            candidates.append(f.alt_last)  # may be None: nothing described
    elif last is not None and last.kind == "abort":
        prev = [o for o in call.ops[:-1] if o.failed]
        candidates.append(prev[-1] if prev else None)
    else:
        candidates.append(None)
    good = False
    for c in candidates:
        if c is None:
            if lk is None and lexc is None and lres is None and cause is None:
                good = True
        else:
            want_cause = "exception" if c.kind == "x" else "result"
            want_exc = "foreign:TimeoutError" if getattr(c, "timeout", False) else c.obj
            if (lk == c.klass and cause == want_cause
                    and ((c.kind == "x" and lexc == want_exc and lres is None)
                         or (c.kind == "r" and lres == c.obj and lexc is None))):
                good = True
    if not good:
        v.append(("c11.last-failure",
                  f"outcome describes last_class={lk} cause={cause} last_exception={lexc} "
                  f"last_result={lres}; final failure candidates: "
                  f"{[(c.label, c.obj) if c else None for c in candidates]}"))
    if reason == "SCHEDULED" or (f.deferred and not f.aborted):
        if nxt != f.delay:
            v.append(("c11.next-sleep", f"next_sleep_s={nxt}, applied delay {f.delay}"))
    elif nxt is not None:
        v.append(("c11.next-sleep", f"next_sleep_s={nxt} on a run that was not deferred"))
    return v
