"""Coordinator: shard a property's tasks over worker processes, aggregate, write evidence.

The coordinating process never imports redress (and never patches ``time``); workers do, in
their initializer, before anything from the library is imported.
"""

from __future__ import annotations

import importlib
import json
import multiprocessing as mp
import os
import sys
import time
import traceback
from time import monotonic as _real_monotonic  # bound before any clock patching

from .seqcheck import jsonable, merge, new_result, replay_hash

ROOT = os.path.dirname(os.path.dirname(os.path.abspath(__file__)))
EVID = os.path.join(ROOT, "evidence")
REPLAYS = os.path.join(ROOT, "replays")
FINDINGS = os.path.join(ROOT, "known_findings.json")

PROPS = [f"C{n:02d}" for n in range(1, 21)]


def prop_module(pid):
    return importlib.import_module(f"mc.props.{pid.lower()}")


_INIT_ERROR = None


def _worker_init():
    """Patch clocks and import redress from the working tree.  A failure (e.g. the tree does
    not import) is remembered and reported by every task instead of killing the worker, which
    would make the pool respawn workers for ever."""
    global _INIT_ERROR
    sys.dont_write_bytecode = True
    try:
        from . import env
        env.install()
    except BaseException as e:  # noqa: BLE001
        _INIT_ERROR = f"cannot import redress from the working tree: {type(e).__name__}: {e}"


def _worker_run(args):
    pid, task, seed = args
    t_start = _real_monotonic()
    if _INIT_ERROR is not None:
        r = new_result()
        r["error"] = _INIT_ERROR
        return r
    try:
        mod = prop_module(pid)
        res = mod.run_task(task, seed)
        res["error"] = None
        res["fam"] = {task.get("family", "?"): [res["execs"] + res.get("extra_runs", 0),
                                                 _real_monotonic() - t_start]}
        return res
    except BaseException as e:  # noqa: BLE001
        r = new_result()
        r["error"] = f"task {task.get('family')}/{task.get('entry')}: {type(e).__name__}: {e}\n" \
            + traceback.format_exc()
        return r


def load_findings():
    try:
        with open(FINDINGS) as f:
            return json.load(f)
    except FileNotFoundError:
        return []


def run_tasks(pid, tasks, seed, workers=None):
    workers = workers or min(16, os.cpu_count() or 1)
    total = new_result()
    errors = []
    # dispatch order depends on the seed (coverage does not)
    import random
    order = list(range(len(tasks)))
    random.Random(seed).shuffle(order)
    order.sort(key=lambda i: -tasks[i].get("weight", 1))
    jobs = [(pid, tasks[i], seed) for i in order]
    if workers == 1 or len(jobs) <= 1:
        _worker_init()
        results = map(_worker_run, jobs)
        for r in results:
            if r.get("error"):
                errors.append(r["error"])
            merge(total, r)
        return total, errors
    ctx = mp.get_context("fork")
    with ctx.Pool(workers, initializer=_worker_init) as pool:
        chunk = 1 if len(jobs) < 4000 else 4
        for r in pool.imap_unordered(_worker_run, jobs, chunksize=chunk):
            if r.get("error"):
                errors.append(r["error"])
            merge(total, r)
    return total, errors


def write_replay(pid, v):
    d = os.path.join(REPLAYS, pid)
    os.makedirs(d, exist_ok=True)
    h = replay_hash(v)
    path = os.path.join(d, f"{h}.json")
    doc = {"property": pid, "key": v["key"], "message": v["msg"], "family": v["family"],
           "cfg": jsonable(v["cfg"]), "entry": v["entry"], "extra": jsonable(v.get("extra", {})),
           "choices": v["choices"],
           "labels": jsonable(v["labels"]), "trace": v["trace"]}
    with open(path, "w") as f:
        json.dump(doc, f, indent=1)
    test = os.path.join(d, f"test_{h}.py")
    with open(test, "w") as f:
        f.write(
            "# Generated: replays one recorded counterexample without the explorer.\n"
            "import subprocess, sys\n\n\n"
            f"def test_replay_{h}():\n"
            f"    r = subprocess.run(['/venv/bin/python', '-B', '{ROOT}/run.py', 'replay', '{path}'])\n"
            "    assert r.returncode == 0, 'property violated again by this replay'\n")
    return path


def check(pid, tier, seed, workers=None, out=sys.stdout):
    t0 = _real_monotonic()
    mod = prop_module(pid)
    tasks = mod.tasks(tier)
    for i, t in enumerate(tasks):
        t.setdefault("index", i)
        t["tier"] = tier
    total, errors = run_tasks(pid, tasks, seed, workers)
    wall = _real_monotonic() - t0
    findings = [f for f in load_findings() if f["property"] == pid]
    known = {f["key"]: f for f in findings if f["status"] == "finding"}
    rc = 0
    if errors:
        for e in errors[:5]:
            print(f"HARNESS-ERROR property={pid} {e}", file=out)
        rc = 3
    # classify violations
    unknown = [v for v in total["violations"] if v["key"] not in known]
    reported_known = set()
    for v in total["violations"]:
        if v["key"] in known and v["key"] not in reported_known:
            reported_known.add(v["key"])
            print(f"KNOWN-FINDING: property={pid} {known[v['key']]['what']}", file=out)
    n_unknown = sum(c for k, c in total["viol_keys"].items() if k not in known)
    seen_keys = set()
    for v in unknown:
        if v["key"] in seen_keys and len(seen_keys) >= 1:
            continue
        seen_keys.add(v["key"])
        path = write_replay(pid, v)
        print(f"VIOLATION property={pid} replay={path}", file=out)
        print(f"  [{v['key']}] {v['msg']}", file=out)
        rc = 1   # a reported violation decides the exit code, even if another task errored
    # vacuity self-test
    meta = mod.META
    min_out = meta.get("min_outcomes", {}).get(tier, meta.get("min_outcomes", {}).get("quick", 2))
    if rc == 0 and len(total["outcomes"]) < min_out:
        print(f"HARNESS-ERROR property={pid} vacuous: only {len(total['outcomes'])} distinct "
              f"outcomes (< {min_out})", file=out)
        rc = 3
    evidence = {
        "property_id": pid,
        "tier": tier,
        "seed": seed,
        "level": meta["level"],
        "coverage": {
            "states": total["states"],
            "transitions": total["transitions"],
            "traces_validated_against_impl": total["execs"] + total["extra_runs"],
            "evaluations": total["execs"] + total["extra_runs"],
            "distinct_nontrivial": len(total["nontrivial"]),
            "distinct_outcomes": len(total["outcomes"]),
            "rule": meta["rule"],
            "samples": total["samples"][:5] or [{"note": "no sample selected"}],
            "exhaustive": not total["capped"],
            "bounds": mod.bounds(tier) if hasattr(mod, "bounds") else {},
            "max_deviations_reached": total["max_dev"],
            "tasks": len(tasks),
            "caps_hit": bool(total["capped"]),
            "known_findings_seen": sorted(reported_known),
            "engine": meta.get("engine", ""),
        },
        "assumptions": meta.get("assumptions", []),
        "wall_s": round(wall, 3),
        "violations": int(n_unknown),
    }
    # runs against another source tree (VERIF_REPO_SRC: scratch worktrees with a seeded change
    # applied) must not overwrite the evidence of /repo
    alt = os.environ.get("VERIF_REPO_SRC")
    evid_dir = EVID if not alt or os.path.realpath(alt) == "/repo/src" else \
        os.path.join("/tmp", "verif-evidence-other-tree")
    os.makedirs(evid_dir, exist_ok=True)
    fam = total.get("fam", {})
    evidence["coverage"]["families"] = {k: {"executions": v[0], "cpu_s": round(v[1], 1)}
                                        for k, v in sorted(fam.items())}
    with open(os.path.join(evid_dir, f"{pid}.json"), "w") as f:
        json.dump(evidence, f, indent=1)
    if tier == "thorough" and evid_dir == EVID:
        # the per-property file holds the latest run; keep the last thorough run beside it
        tdir = os.path.join(ROOT, "evidence_thorough")
        os.makedirs(tdir, exist_ok=True)
        with open(os.path.join(tdir, f"{pid}.json"), "w") as f:
            json.dump(evidence, f, indent=1)
    if os.environ.get("VERIF_VERBOSE"):
        for k, v in sorted(fam.items(), key=lambda kv: -kv[1][1]):
            print(f"   family {k}: executions={v[0]} cpu={v[1]:.1f}s", file=out)
    print(f"{pid} tier={tier} seed={seed} tasks={len(tasks)} executions={total['execs']} "
          f"(+{total['extra_runs']} differential) states={total['states']} "
          f"transitions={total['transitions']} outcomes={len(total['outcomes'])} "
          f"nontrivial={len(total['nontrivial'])} max_dev={total['max_dev']} "
          f"violations={n_unknown} known={len(reported_known)} capped={total['capped']} "
          f"wall={wall:.1f}s rc={rc}", file=out)
    return rc
