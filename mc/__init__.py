"""Model-checking machinery for aponysus/redress (see /verif/DESIGN.md)."""
