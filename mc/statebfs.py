"""E2: explicit-state breadth-first search over operation histories of real component objects.

A state is the event history that reaches it: live objects are rebuilt by replaying the history
on a fresh real object (plus the reference models), and states are deduplicated on a canonical
form (time-translated implementation state + reference state).  Every transition is checked
against the reference model under the subset construction over boundary conventions.
"""

from __future__ import annotations

import collections

from . import env as E
from .brkspec import CONVENTIONS, HALF, BreakerSpec, BudgetSpec
from .seqcheck import new_result

redress = E.install()
from redress import Budget, CircuitBreaker  # noqa: E402
from redress.errors import ErrorClass  # noqa: E402

TAU = E.TAU
KL = {"T": ErrorClass.TRANSIENT, "R": ErrorClass.RATE_LIMIT, "S": ErrorClass.SERVER_ERROR,
      "C": ErrorClass.CONCURRENCY, "U": ErrorClass.UNKNOWN, "P": ErrorClass.PERMANENT,
      "A": ErrorClass.AUTH, "F": ErrorClass.PERMISSION}
DEFAULT_TRIP = ("T", "S")


def _decoy_breaker():
    """Another breaker instance with different class thresholds, built and thrown away before the
    one under test: instances must not share mutable defaults."""
    try:
        d = CircuitBreaker(failure_threshold=1, class_thresholds={
            ErrorClass.RATE_LIMIT: 1, ErrorClass.CONCURRENCY: 1, ErrorClass.UNKNOWN: 1,
            ErrorClass.PERMANENT: 1})
        d.record_failure(ErrorClass.RATE_LIMIT)
    except Exception:  # noqa: BLE001
        pass



def _poison(kw):
    """The caller re-uses and mutates its own containers after constructing the breaker (e.g. to
    build a second, stricter one): the first breaker must not see that."""
    ct = kw.get("class_thresholds")
    if ct is not None:
        for k in list(ct):
            ct[k] = 1
        for k in KL.values():
            ct.setdefault(k, 1)
    to = kw.get("trip_on")
    if to is not None:
        to.clear()


def make_breaker(cfg, clock):
    _decoy_breaker()
    kw = dict(failure_threshold=cfg["threshold"], window_s=cfg["window"] * TAU,
              recovery_timeout_s=cfg["recovery"] * TAU, clock=clock)
    if cfg.get("trip_on") is not None:
        kw["trip_on"] = {KL[k] for k in cfg["trip_on"]}
        if cfg.get("trip_iter"):
            kw["trip_on"] = (KL[k] for k in cfg["trip_on"])   # can be walked once
    if cfg.get("class_thresholds"):
        kw["class_thresholds"] = {KL[k]: v for k, v in cfg["class_thresholds"].items()}
    b = CircuitBreaker(**kw)
    if cfg.get("trip_iter"):
        kw.pop("trip_on")
    _poison(kw)
    return b


def make_spec(cfg, conv):
    trip = cfg["trip_on"] if cfg.get("trip_on") is not None else DEFAULT_TRIP
    return BreakerSpec(cfg["threshold"], cfg["window"] * TAU, cfg["recovery"] * TAU, trip,
                       cfg.get("class_thresholds") or {}, conv)


def generic_canon(obj, now):
    """Canonical form of *all* instance state (robust to renamed or added fields): numbers that
    look like instants on the virtual clock (>= 500) are time-translated, containers recursed,
    locks / callables / the clock itself skipped.  Expired entries are *not* dropped."""
    import threading as _th
    lock_types = (type(_th.Lock()), type(_th.RLock()))

    def conv(v):
        if isinstance(v, bool) or v is None or isinstance(v, str):
            return v
        if isinstance(v, (int, float)):
            if isinstance(v, float) and v >= 500.0:
                return ("t", now - v)
            return v
        if hasattr(v, "value") and hasattr(type(v), "__members__"):
            return ("e", str(v.value) if not isinstance(v.value, int) else v.name)
        if isinstance(v, dict):
            return ("d", tuple(sorted((repr(conv(k)), conv(x)) for k, x in v.items())))
        if isinstance(v, (list, tuple)) or type(v).__name__ == "deque":
            return ("l", tuple(conv(x) for x in v))
        if isinstance(v, (set, frozenset)):
            return ("s", tuple(sorted(repr(conv(x)) for x in v)))
        if isinstance(v, lock_types) or callable(v) or hasattr(v, "acquire"):
            return None
        return ("o", type(v).__name__)

    return tuple((k, conv(v)) for k, v in sorted(vars(obj).items())
                 if conv(v) is not None or v is None)


def breaker_canon(b, now):
    """Time-translated implementation state of a CircuitBreaker (all instance attributes)."""
    return generic_canon(b, now)


class Clock:
    __slots__ = ("now",)

    def __init__(self):
        self.now = E.T0

    def __call__(self):
        return self.now


def tick_menu(cfg):
    W, R = cfg["window"], cfg["recovery"]
    if cfg.get("frac_tick"):
        # advances 0.4 ms short of / past the window: a failure of that age is unambiguously
        # inside / outside it (no boundary convention involved)
        return sorted({1, W, W + 0.0032, W - 0.0032, R})
    return sorted({1, max(W - 1, 1), W, W + 1, R})


# ---------------------------------------------------------------------------------------------
# raw breaker histories (C06): allow | success | cancel | failure(K) | tick(d)
# ---------------------------------------------------------------------------------------------

def raw_events(cfg, classes):
    ev = [("allow",), ("success",), ("cancel",)]
    ev += [("failure", k) for k in classes]
    ev += [("tick", d) for d in tick_menu(cfg)]
    return ev


def apply_raw_impl(b, clock, ev):
    k = ev[0]
    if k == "tick":
        clock.now += ev[1] * TAU
        return None
    if k == "allow":
        d = b.allow()
        return (d.allowed, d.state.value, d.event)
    if k == "success":
        return b.record_success()
    if k == "cancel":
        return b.record_cancel()
    if k == "failure":
        return b.record_failure(KL[ev[1]])
    raise ValueError(ev)


def apply_raw_spec(s, now, ev):
    """Returns (answer, well_defined)."""
    k = ev[0]
    if k == "tick":
        return None, True
    if k == "allow":
        adm, st, event, _cid = s.start(now)
        return (adm, st, event), True
    if s.mode == HALF and s.probe is None:
        return None, False  # a record with no call outstanding: not defined by the statements
    if k == "success":
        return s.record_anonymous("success", None, now), True
    if k == "cancel":
        return s.record_anonymous("cancel", None, now), True
    return s.record_anonymous("failure", ev[1], now), True


def _mk_clock(cfg):
    """The breaker's clock starts at T0 = 1000 s, or - cfg["t0"] ticks - somewhere else, e.g. at a
    negative reading (a monotonic clock has an arbitrary reference point)."""
    clock = Clock()
    if cfg.get("t0") is not None:
        clock.now = cfg["t0"] * TAU
    return clock


def replay_raw(cfg, hist):
    """Rebuild (impl, clock, {conv: spec}) from a history; returns None for the specs that
    were contradicted on the way (they are dropped) and the last answers."""
    clock = _mk_clock(cfg)
    b = make_breaker(cfg, clock)
    specs = {c: make_spec(cfg, c) for c in CONVENTIONS}
    last = None
    undefined = False
    for ev in hist:
        if ev[0] == "tick":
            clock.now += ev[1] * TAU
            last = (None, {c: None for c in specs})
            continue
        got = apply_raw_impl(b, clock, ev)
        answers = {}
        for c, s in list(specs.items()):
            want, ok = apply_raw_spec(s, clock.now, ev)
            if not ok:
                undefined = True
            answers[c] = want
            if ok and want != got:
                del specs[c]
        last = (got, answers)
    return b, clock, specs, last, undefined


def bfs_raw(cfg, depth, classes, seed=0, probe_every=257):
    """BFS over raw breaker histories.  Returns a result dict (see seqcheck.new_result)."""
    res = new_result()
    events = raw_events(cfg, classes)
    seen = {}
    frontier = collections.deque([()])
    b0, c0, s0, _, _ = replay_raw(cfg, ())
    seen[(breaker_canon(b0, c0.now), frozenset())] = ()
    trans = 0
    outcomes = set()
    dup_count = 0
    while frontier:
        hist = frontier.popleft()
        if len(hist) >= depth:
            continue
        for ev in events:
            h2 = hist + (ev,)
            b, clock, specs, last, undefined = replay_raw(cfg, h2)
            if undefined:
                continue  # event not defined by the statements in this state
            trans += 1
            got, answers = last
            outcomes.add((ev[0], repr(got)))
            mode_ok = {c: s for c, s in specs.items() if s.mode == b.state.value}
            if not mode_ok:
                why = (f"after {list(h2)}: breaker answered {got!r} / state {b.state.value}; "
                       f"reference allows {sorted(set(map(repr, answers.values())))}")
                key = "c06.opens-wrongly" if ev[0] == "failure" else "c06.breaker-diverges"
                if len(res["violations"]) < 6:
                    res["violations"].append({"key": key, "msg": why, "family": "raw", "cfg": cfg,
                                              "entry": "CircuitBreaker", "choices": [list(e) for e in h2],
                                              "labels": [list(e) for e in h2], "trace": [],
                                              "extra": {"depth": depth, "classes": classes}})
                res["nviol"] += 1
                res["viol_keys"][key] = res["viol_keys"].get(key, 0) + 1
                continue
            key = (breaker_canon(b, clock.now),
                   frozenset((c, s.key(clock.now)) for c, s in mode_ok.items()))
            prev = seen.get(key)
            if prev is None:
                seen[key] = h2
                frontier.append(h2)
                if len(res["samples"]) < 2 and len(h2) >= min(depth, 5) and (len(seen) + seed) % 97 == 0:
                    res["samples"].append({"family": "raw", "cfg": cfg, "history": [list(e) for e in h2],
                                           "last_answer": repr(got)})
            else:
                dup_count += 1
                if (dup_count + seed) % probe_every == 0:
                    bad = probe_differential(cfg, prev, h2, classes)
                    if bad:
                        res["nviol"] += 1
                        res["viol_keys"]["c06.canon-futures"] = res["viol_keys"].get("c06.canon-futures", 0) + 1
                        if len(res["violations"]) < 6:
                            res["violations"].append({
                                "key": "c06.canon-futures", "msg": bad, "family": "raw", "cfg": cfg,
                                "entry": "CircuitBreaker", "choices": [list(e) for e in h2],
                                "labels": [list(e) for e in prev], "trace": [],
                                "extra": {"depth": depth, "classes": classes}})
    res["execs"] = trans
    res["states"] = len(seen)
    res["transitions"] = trans
    res["outcomes"] = outcomes
    res["nontrivial"] = {hash(k) for k in seen}
    return res


def probe_suite(cfg, classes):
    k = classes[0]
    thr = cfg["threshold"]
    R = cfg["recovery"]
    return [
        [("failure", k)] * (thr + 1),
        [("tick", R), ("allow",), ("allow",), ("success",), ("allow",)],
        [("allow",), ("failure", k), ("tick", 1), ("failure", k), ("allow",)],
        [("tick", cfg["window"]), ("failure", k), ("allow",)],
    ]


def probe_differential(cfg, h1, h2, classes):
    """Two histories with the same canonical state must have the same futures."""
    for suite in probe_suite(cfg, classes):
        outs = []
        for h in (h1, h2):
            clock = _mk_clock(cfg)
            b = make_breaker(cfg, clock)
            for ev in h:
                apply_raw_impl(b, clock, ev)
            outs.append([apply_raw_impl(b, clock, ev) for ev in suite] + [b.state.value])
        if outs[0] != outs[1]:
            return (f"histories {list(h1)} and {list(h2)} reach the same canonical state but "
                    f"answer {suite} differently: {outs[0]} vs {outs[1]}")
    return None


# ---------------------------------------------------------------------------------------------
# budget histories (C10)
# ---------------------------------------------------------------------------------------------

def budget_canon(b, now):
    return generic_canon(b, now)


def replay_budget(cfg, hist):
    clock = E.Clock()
    E.set_clock(clock)
    b = Budget(max_retries=cfg["max"], window_s=cfg["window"] * TAU)
    specs = {inc: BudgetSpec(cfg["max"], cfg["window"] * TAU, inc) for inc in (False, True)}
    last = None
    grants = []
    for ev in hist:
        k = ev[0]
        if k == "tick":
            clock.now += ev[1] * TAU
            last = (None, {})
            continue
        if k == "setmax":
            # the owner re-sizes the budget at run time through its public attribute
            b.max_retries = ev[1]
            for s in specs.values():
                s.max = ev[1]
            last = (None, {})
            continue
        now = clock.now
        if k == "consume":
            got = b.consume(ev[1])
            if got:
                grants.extend([now] * ev[1])
            answers = {}
            for inc, s in list(specs.items()):
                want = s.consume(ev[1], now)
                answers[inc] = want
                if want != got:
                    del specs[inc]
        else:
            got = b.remaining()
            answers = {}
            for inc, s in list(specs.items()):
                want = s.remaining(now)
                answers[inc] = want
                if want != got:
                    del specs[inc]
        last = (got, answers)
    return b, clock, specs, last, grants


def window_invariant(cfg, grants):
    """From the observed grant instants alone: every half-open interval (t-W, t] holds <= max."""
    W = cfg["window"] * TAU
    for i, t in enumerate(grants):
        n = sum(1 for g in grants[: i + 1] if t - W < g <= t)
        if n > cfg["max"]:
            return f"{n} grants in ({t - W - E.T0}, {t - E.T0}] > max_retries={cfg['max']}"
    return None


def bfs_budget(cfg, depth, seed=0):
    res = new_result()
    W = cfg["window"]
    events = [("consume", 1), ("consume", 2), ("remaining",)] + \
             [("tick", d) for d in sorted({1, max(W - 1, 1), W, W + 1})]
    if cfg.get("big"):
        # a budget of 70: many grants age out between two operations
        events = [("consume", 70), ("consume", 35), ("consume", 1), ("remaining",),
                  ("tick", W), ("tick", W + 1), ("tick", 1)]
    if cfg.get("widen"):
        events.append(("setmax", cfg["max"] + 2))
    if cfg.get("frac_tick"):
        # an advance that is not a multiple of the tick nor of a millisecond: 0.4 ms short of the
        # window (a token of that age is unambiguously still inside it)
        events.append(("tick", W - 0.0032))
    seen = {}
    frontier = collections.deque([()])
    seen[((), frozenset())] = ()
    trans = 0
    outcomes = set()
    while frontier:
        hist = frontier.popleft()
        if len(hist) >= depth:
            continue
        for ev in events:
            h2 = hist + (ev,)
            b, clock, specs, last, grants = replay_budget(cfg, h2)
            trans += 1
            got, answers = last
            outcomes.add((ev[0], repr(got)))
            bad = None
            if not specs:
                bad = ("c10.budget-diverges",
                       f"after {list(h2)}: budget answered {got!r}; reference allows "
                       f"{sorted(set(map(repr, answers.values())))}")
            else:
                inv = window_invariant(
                    dict(cfg, max=cfg["max"] + 2) if any(e[0] == "setmax" for e in h2) else cfg,
                    grants)
                if inv:
                    bad = ("c10.window-invariant", f"after {list(h2)}: {inv}")
            if bad:
                res["nviol"] += 1
                res["viol_keys"][bad[0]] = res["viol_keys"].get(bad[0], 0) + 1
                if len(res["violations"]) < 6:
                    res["violations"].append({"key": bad[0], "msg": bad[1], "family": "budget-raw",
                                              "cfg": cfg, "entry": "Budget",
                                              "choices": [list(e) for e in h2],
                                              "labels": [list(e) for e in h2], "trace": [],
                                              "extra": {"depth": depth}})
                continue
            key = (budget_canon(b, clock.now),
                   frozenset((inc, tuple(clock.now - g for g in s.grants)) for inc, s in specs.items()))
            if key not in seen:
                seen[key] = h2
                frontier.append(h2)
                if len(res["samples"]) < 2 and len(h2) >= min(depth, 5) and (len(seen) + seed) % 53 == 0:
                    res["samples"].append({"family": "budget-raw", "cfg": cfg,
                                           "history": [list(e) for e in h2], "last_answer": repr(got)})
    res["execs"] = trans
    res["states"] = len(seen)
    res["transitions"] = trans
    res["outcomes"] = outcomes
    res["nontrivial"] = {hash(k) for k in seen}
    return res


# ---------------------------------------------------------------------------------------------
# identity-aware breaker histories (C07a): start | settle(i, kind) | tick(d)
# ---------------------------------------------------------------------------------------------

SETTLE_KINDS = [("success", None), ("failure", "T"), ("cancel", None)]


class IdWorld:
    """Real CircuitBreaker driven by calls with identities, with the reference alongside."""

    def __init__(self, cfg):
        self.cfg = cfg
        self.clock = Clock()
        self.b = make_breaker(cfg, self.clock)
        self.specs = {c: make_spec(cfg, c) for c in CONVENTIONS}
        self.out = []          # outstanding calls: dict(conv -> cid)
        self.diverged = None   # (key, message) of the first divergence

    def _drop(self, pred, what, stale_ctx=None):
        for c in [c for c, s in self.specs.items() if pred(c, s)]:
            del self.specs[c]
        if not self.specs and self.diverged is None:
            self.diverged = what

    def apply(self, ev):
        k = ev[0]
        now_specs = self.specs
        if k == "tick":
            self.clock.now += ev[1] * TAU
            return
        now = self.clock.now
        if k == "start":
            d = self.b.allow()
            got = (d.allowed, d.state.value, d.event)
            cids = {}
            for c, s in list(now_specs.items()):
                adm, st, event, cid = s.start(now)
                cids[c] = cid
                if (adm, st, event) != got:
                    del now_specs[c]
            if not now_specs:
                self.diverged = ("c07.admission", f"start answered {got}")
                return
            if d.allowed:
                self.out.append(cids)
            return
        if k == "settle":
            i, kind, klass = ev[1], ev[2], ev[3]
            cids = self.out.pop(i)
            stale_half = any(s.mode == HALF and s.is_stale(cids.get(c)) and s.probe != cids.get(c)
                             for c, s in now_specs.items())
            if kind == "success":
                got = self.b.record_success()
            elif kind == "cancel":
                got = self.b.record_cancel()
            else:
                got = self.b.record_failure(KL[klass])
            for c, s in list(now_specs.items()):
                want = s.settle(cids.get(c), kind, klass, now)
                if want != got:
                    del now_specs[c]
            if not now_specs:
                self.diverged = ("c07.stale-settle" if stale_half else "c07.settlement",
                                 f"settle({kind}) answered {got!r}")
            self._last_stale_half = stale_half
            return
        raise ValueError(ev)

    def lookahead(self, last_ev):
        """Observable comparison after an event: state property and what a start would get
        now and after the recovery timeout (on this throw-away replica)."""
        if self.diverged:
            return
        stale_half = last_ev[0] == "settle" and getattr(self, "_last_stale_half", False)
        key = "c07.stale-settle" if stale_half else "c07.diverges"
        st = self.b.state.value
        live = {c: s for c, s in self.specs.items() if s.mode == st}
        if not live:
            self.diverged = (key, f"state is {st}, reference says "
                                  f"{sorted({s.mode for s in self.specs.values()})}")
            return
        d = self.b.allow()
        got = (d.allowed, d.state.value, d.event)
        ok = False
        for c, s in live.items():
            s2 = s.clone()
            adm, st2, event, _ = s2.start(self.clock.now)
            if (adm, st2, event) == got:
                ok = True
        if not ok:
            self.diverged = (key, f"a call starting now is answered {got}; reference "
                                  f"(probe outstanding: "
                                  f"{sorted({s.probe is not None for s in live.values()})}, mode "
                                  f"{sorted({s.mode for s in live.values()})}) disagrees")

    def key(self):
        now = self.clock.now
        outs = []
        for cids in self.out:
            outs.append(tuple(sorted((c, s.probe == cids.get(c), s.is_stale(cids.get(c)))
                                     for c, s in self.specs.items())))
        return (breaker_canon(self.b, now),
                frozenset((c, s.key(now)) for c, s in self.specs.items()),
                tuple(sorted(outs)))


def replay_identity(cfg, hist):
    w = IdWorld(cfg)
    for i, ev in enumerate(hist):
        w.apply(ev)
        if w.diverged:
            return w, i
    return w, None


def bfs_identity(cfg, depth, max_out, seed=0):
    res = new_result()
    ticks = sorted({1, cfg["recovery"] - 1 or 1, cfg["recovery"], cfg["window"]})
    if cfg.get("frac_tick"):
        # 0.4 ms short of the recovery timeout: unambiguously still open
        ticks.append(cfg["recovery"] - 0.0032)
    seen = {}
    frontier = collections.deque([()])
    trans = 0
    outcomes = set()
    while frontier:
        hist = frontier.popleft()
        if len(hist) >= depth:
            continue
        w0, _ = replay_identity(cfg, hist)
        n_out = len(w0.out)
        events = [("tick", d) for d in ticks]
        if n_out < max_out:
            events.append(("start",))
        for i in range(n_out):
            for kind, klass in SETTLE_KINDS:
                events.append(("settle", i, kind, klass))
        for ev in events:
            h2 = hist + (ev,)
            w, at = replay_identity(cfg, h2)
            trans += 1
            if not w.diverged:
                key = w.key()
                w.lookahead(ev)
            if w.diverged:
                k, msg = w.diverged
                outcomes.add(("diverged", k))
                res["nviol"] += 1
                res["viol_keys"][k] = res["viol_keys"].get(k, 0) + 1
                if not any(v["key"] == k for v in res["violations"]):
                    res["violations"].append({
                        "key": k, "msg": f"after {list(h2)}: {msg}", "family": "identity",
                        "cfg": cfg, "entry": "CircuitBreaker", "choices": [list(e) for e in h2],
                        "labels": [list(e) for e in h2], "trace": [],
                        "extra": {"depth": depth, "max_out": max_out}})
                continue  # pruned at the first divergent step
            outcomes.add((ev[0], w.b.state.value, len(w.out)))
            if key not in seen:
                seen[key] = h2
                frontier.append(h2)
                if len(res["samples"]) < 2 and len(h2) >= min(depth, 5) and (len(seen) + seed) % 89 == 0:
                    res["samples"].append({"family": "identity", "cfg": cfg,
                                           "history": [list(e) for e in h2],
                                           "state": w.b.state.value})
    res["execs"] = trans
    res["states"] = len(seen)
    res["transitions"] = trans
    res["outcomes"] = outcomes
    res["nontrivial"] = {hash(k) for k in seen}
    return res
