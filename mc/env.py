"""Owned environment: virtual clocks, RNG, wall clock; must be installed before redress is imported.

``install()`` replaces ``time.monotonic/sleep/time/time_ns/perf_counter/monotonic_ns`` *before*
``redress`` is imported, so that even default arguments bound at import time
(``CircuitBreaker(clock=time.monotonic)``, ``adaptive(clock=...)``) refer to the virtual clock.
It then imports redress from /repo/src (the current working tree) and replaces
``redress.strategies.random`` and ``redress.extras.http.datetime`` by owned stubs.
"""

from __future__ import annotations

import asyncio  # noqa: F401  (imported before patching on purpose)
import concurrent.futures  # noqa: F401
import datetime as _dt
import importlib
import multiprocessing  # noqa: F401
import os
import queue  # noqa: F401
import random as _random  # noqa: F401
import sys
import threading  # noqa: F401
import time as _time

TAU = 0.125
T0 = 1000.0
WALL0 = 1_900_000_000.0  # some instant in 2030

REAL = {
    name: getattr(_time, name)
    for name in ("monotonic", "sleep", "time", "time_ns", "perf_counter", "monotonic_ns",
                 "perf_counter_ns")
}

REAL_RANDOM = {name: getattr(_random, name) for name in ("uniform", "random")}

REPO_SRC = os.environ.get("VERIF_REPO_SRC", "/repo/src")


class Clock:
    """Virtual time source shared by everything in one execution."""

    __slots__ = ("now", "wall_hook", "sleep_hook", "frac", "rand_calls", "utcnow", "global_rng",
                 "async_sleep_hook")

    def __init__(self):
        self.now = T0
        self.wall_hook = None   # callable() -> offset to add to the steady wall clock
        self.sleep_hook = None  # callable(seconds) replacing time.sleep / asyncio.sleep
        self.frac = 0.0         # fraction returned by the owned RNG
        self.rand_calls = 0
        self.utcnow = None      # owned datetime for redress.extras.http
        self.global_rng = False  # draws come from the (re-seeded) process-global random stream
        self.async_sleep_hook = None  # callable(seconds) -> awaitable replacing asyncio.sleep


CLOCK = Clock()
_installed = False


def set_clock(c: Clock) -> None:
    global CLOCK
    CLOCK = c


def v_monotonic() -> float:
    return CLOCK.now


def v_monotonic_ns() -> int:
    return int(CLOCK.now * 1_000_000_000)


def v_time() -> float:
    c = CLOCK
    off = c.wall_hook() if c.wall_hook is not None else 0.0
    return WALL0 + (c.now - T0) + off


def v_time_ns() -> int:
    return int(v_time() * 1_000_000_000)


def v_perf_counter() -> float:
    # perf_counter is monotonic in reality, but nothing may depend on it either: treat like wall
    c = CLOCK
    off = c.wall_hook() if c.wall_hook is not None else 0.0
    return 5000.0 + (c.now - T0) + off


def v_sleep(seconds) -> None:
    c = CLOCK
    if c.sleep_hook is not None:
        c.sleep_hook(seconds)
        return
    advance(seconds)


def advance(seconds) -> None:
    try:
        s = float(seconds)
    except Exception:
        return
    if s != s or s <= 0:
        return
    if s > 1e7:
        s = 1e7
    CLOCK.now += s


async def v_asyncio_sleep(delay, result=None):
    c = CLOCK
    if c.async_sleep_hook is not None:
        await c.async_sleep_hook(delay)   # really suspends (virtual loop): asyncio.sleep(0) yields
        return result
    if c.sleep_hook is not None:
        r = c.sleep_hook(delay)
        if hasattr(r, "__await__"):
            await r
        return result
    advance(delay)
    return result


class OwnedRandom:
    """Replacement for the ``random`` module inside redress.strategies."""

    def uniform(self, a, b):
        CLOCK.rand_calls += 1
        if CLOCK.global_rng:
            return REAL_RANDOM["uniform"](a, b)   # the stream every other user of `random` shares
        return a + (b - a) * CLOCK.frac

    def random(self):
        CLOCK.rand_calls += 1
        if CLOCK.global_rng:
            return REAL_RANDOM["random"]()
        f = CLOCK.frac
        return f if f < 1.0 else 1.0 - 2.0 ** -53

    def __getattr__(self, name):  # anything else: fail loudly, nondeterminism must be owned
        raise AttributeError(f"owned RNG: random.{name} is not modelled")


class OwnedDatetime(_dt.datetime):
    @classmethod
    def now(cls, tz=None):
        base = CLOCK.utcnow
        if base is None:
            base = _dt.datetime(2030, 1, 1, 0, 0, 0, tzinfo=_dt.UTC)
        if tz is None:
            # naive *local* time; the owned local zone is UTC-5 so that code confusing local time
            # with UTC is exposed
            return (base - _dt.timedelta(hours=5)).replace(tzinfo=None)
        return base.astimezone(tz)


def install():
    """Patch clocks, then import redress from the working tree.  Idempotent."""
    global _installed
    if _installed:
        return sys.modules["redress"]
    if "redress" in sys.modules:
        raise RuntimeError("mc.env.install() must run before redress is imported")
    _time.monotonic = v_monotonic
    _time.monotonic_ns = v_monotonic_ns
    _time.sleep = v_sleep
    _time.time = v_time
    _time.time_ns = v_time_ns
    _time.perf_counter = v_perf_counter
    asyncio.sleep = v_asyncio_sleep
    if REPO_SRC in sys.path:
        sys.path.remove(REPO_SRC)
    sys.path.insert(0, REPO_SRC)
    redress = importlib.import_module("redress")
    src = os.path.realpath(redress.__file__)
    if not src.startswith(os.path.realpath(REPO_SRC) + os.sep):
        raise RuntimeError(f"redress imported from {src}, expected under {REPO_SRC}")
    import redress.strategies as _strat
    import redress.extras.http as _http
    import redress.extras  # noqa: F401

    _strat.random = OwnedRandom()
    # any other module of the library that draws from `random` gets the owned draws as well (the
    # two functions a backoff computation uses; anything else stays real and is caught by the
    # determinism self-check as unowned nondeterminism, not reported as a violation)
    _owned = OwnedRandom()
    _random.uniform = _owned.uniform
    _random.random = _owned.random
    if hasattr(_http, "datetime"):
        _http.datetime = OwnedDatetime
    _installed = True
    return redress


def real_monotonic() -> float:
    return REAL["monotonic"]()
