"""Trace views shared by the monitors: split into calls and per-attempt segments, normalise."""

from __future__ import annotations

NONRETRY = ("P", "A", "F")
CANCEL_LABELS = ("kbd", "exit", "cancel", "genexit")


class Op:
    __slots__ = ("n", "label", "kind", "klass", "ra", "t0", "t1", "obj", "timeout")

    def __init__(self, rec):
        _, self.n, self.label, self.t0, self.t1, self.obj = rec
        self.timeout = False
        lab = self.label
        if lab == "ok":
            self.kind, self.klass, self.ra = "ok", None, False
        elif lab == "timeout":
            # the operation itself raised the builtin TimeoutError (classified TRANSIENT)
            self.kind, self.klass, self.ra = "x", "T", False
        elif lab[:2] in ("x:", "r:"):
            self.kind = lab[0]
            k, _, ra = lab[2:].partition("+")
            self.klass, self.ra = k, bool(ra)
        else:
            self.kind, self.klass, self.ra = lab, None, False

    @property
    def failed(self):
        return self.kind in ("x", "r")

    def __repr__(self):
        return f"op{self.n}:{self.label}@{self.t0}-{self.t1}"


class CallView:
    """One call: ``pre`` = records before the first op; ``segs[i]`` = records after op i
    (0-based) up to the next op or the end record; ``end`` = the end record (or None)."""

    __slots__ = ("k", "entry", "t_start", "ops", "pre", "segs", "end", "records")

    def __init__(self, k, entry, t_start):
        self.k, self.entry, self.t_start = k, entry, t_start
        self.ops = []
        self.pre = []
        self.segs = []
        self.end = None
        self.records = []

    def all(self, kind):
        return [r for r in self.records if r[0] == kind]

    def metrics(self):
        return [r for r in self.records if r[0] == "metric"]

    def elapsed(self, t):
        return t - self.t_start


def split_calls(trace):
    calls = []
    cur = None
    between = []
    for r in trace:
        k = r[0]
        if k == "call":
            cur = CallView(r[1], r[2], r[3] if len(r) > 3 else 0.0)
            calls.append(cur)
            continue
        if cur is None or cur.end is not None:
            between.append(r)
            continue
        cur.records.append(r)
        if k == "op":
            cur.ops.append(Op(r))
            cur.segs.append([])
        elif k == "end":
            cur.end = r
        elif cur.ops:
            cur.segs[-1].append(r)
        else:
            cur.pre.append(r)
    for c in calls:
        for i, op in enumerate(c.ops):
            if op.label == "cut":
                # an attempt cut short: by the attempt timeout (the library then classifies a
                # TimeoutError) or by cancellation of the whole call
                cl = [r for r in c.segs[i] if r[0] == "classify" and r[1] == "foreign:TimeoutError"]
                if cl:
                    op.kind, op.klass, op.label = "x", cl[0][2], "x:" + cl[0][2]
                    op.timeout = True
                elif any(r[0] in ("op", "strategy", "sleep") or (r[0] == "metric" and r[1] != "aborted")
                         for r in c.segs[i]) or i + 1 < len(c.ops):
                    # the run went on after the cut: it was the attempt timeout, yet the
                    # classifier was never asked what a TimeoutError is
                    op.kind, op.klass, op.label = "x", "?", "x:?"
                    op.timeout = True
                else:
                    op.kind = "cancel"
    return calls


OBJ_POS = {"op": (5,), "classify": (1, 4), "rclassify": (1, 4), "strategy": (9,),
           "aend": (7, 8), "thrown": (2,), "sleep": (5,)}
TIME_POS = {"op": (3, 4), "sleep": (3, 4), "consume": (2,), "call": (3,)}


def normalize(records, t_base, drop=()):
    """Canonical form of a trace segment: object indices renumbered by first appearance, times
    relative to t_base, records whose kind is in ``drop`` removed."""
    ren = {}

    def o(i):
        if not isinstance(i, int) or isinstance(i, bool):
            return i
        j = ren.get(i)
        if j is None:
            j = ren[i] = len(ren)
        return ("o", j)

    out = []
    for r in records:
        k = r[0]
        if k in drop:
            continue
        if k == "end":
            if r[1] == "ret":
                r = (k, "ret", o(r[2]))
            elif r[1] == "raise":
                det = r[4]
                if det is not None:
                    det = det[:3] + (o(det[3]), o(det[4])) + det[5:]
                r = (k, "raise", r[2], o(r[3]), det, r[5])
            elif r[1] == "outcome":
                r = r[:3] + (o(r[3]),) + r[4:7] + (o(r[7]), o(r[8])) + r[9:]
            out.append(r)
            continue
        op = OBJ_POS.get(k)
        tp = TIME_POS.get(k)
        if op or tp:
            r = list(r)
            if op:
                for p in op:
                    if p < len(r):
                        r[p] = o(r[p])
            if tp:
                for p in tp:
                    if p < len(r) and isinstance(r[p], float):
                        r[p] = r[p] - t_base
            r = tuple(r)
        out.append(r)
    return out


def first_diff(a, b):
    for i, (x, y) in enumerate(zip(a, b)):
        if x != y:
            return i, x, y
    if len(a) != len(b):
        i = min(len(a), len(b))
        return i, (a[i] if i < len(a) else None), (b[i] if i < len(b) else None)
    return None
