"""Generic task runner for E1-style checks: explore one (cfg, entry) cell and collect counters."""

from __future__ import annotations

import hashlib
import json

from .kernel import Chooser, ReplayMismatch, explore
from .lazy import seq

MAX_VIOL_PER_TASK = 4


class Divergence(Exception):
    """A differential replay asked a different question than the reference run."""


class DiffChooser(Chooser):
    """Replays the reference run's choices on a variant; any structural difference is reported
    as a Divergence (a *finding about the code*, not a harness error)."""

    def choose(self, kind, n, free=False):
        i = self.pos
        if i >= len(self.prefix):
            raise Divergence(f"variant asks an extra question #{i}: {kind}/{n}")
        mk, mn = self.meta[i]
        if mk != kind or mn != n:
            raise Divergence(f"variant asks {kind}/{n} at #{i} where the reference asked {mk}/{mn}")
        c = self.prefix[i]
        self.log.append((kind, n, c, free))
        self.pos = i + 1
        return c


def diff_chooser(ref_ch):
    return DiffChooser(ref_ch.choices(), tuple((e[0], e[1]) for e in ref_ch.log))


def run_world(full, entry, ch):
    """One call in a fresh World.  With ``real_executor`` real time is the one thing the harness
    does not own: an execution in which it ran away (an attempt that does not overrun in the model
    was timed out by a stalled machine, a parked thread was lost, or the run therefore asked
    different questions than the replayed prefix) is repeated with the same choices, and given up
    as inconclusive - never judged, never an error - after four repeats.  Returns (world, judge?)."""
    if not full["real_executor"]:
        w = seq.World(full, ch)
        w.call(entry)
        return w, True

    def once(c):
        w = seq.World(full, c)
        try:
            w.call(entry)
        except ReplayMismatch:
            w.inconclusive = True
            try:
                w._release("end")
            except Exception:  # noqa: BLE001
                pass
        return w

    w = once(ch)
    for _ in range(4):
        if not w.inconclusive:
            return w, True
        ch2 = Chooser(ch.prefix, ch.meta)
        w = once(ch2)
        ch.pos, ch.log = ch2.pos, ch2.log
    if w.inconclusive:
        w.trace.append(("inconclusive",))
        ch.pos = max(ch.pos, len(ch.prefix))   # the subtree below this prefix is given up
        return w, False
    return w, True


def new_result():
    return {
        "execs": 0,
        "states": 0,
        "transitions": 0,
        "outcomes": set(),
        "nontrivial": set(),
        "violations": [],
        "nviol": 0,
        "viol_keys": {},
        "samples": [],
        "capped": False,
        "max_dev": 0,
        "extra_runs": 0,
    }


def merge(a, b):
    a["execs"] += b["execs"]
    a["states"] += b["states"]
    a["transitions"] += b["transitions"]
    a["outcomes"] |= b["outcomes"]
    a["nontrivial"] |= b["nontrivial"]
    a["nviol"] += b["nviol"]
    for k, v in b["viol_keys"].items():
        a["viol_keys"][k] = a["viol_keys"].get(k, 0) + v
    have = {(v["key"]) for v in a["violations"]}
    for v in b["violations"]:
        if len(a["violations"]) < 40 or v["key"] not in have:
            a["violations"].append(v)
            have.add(v["key"])
    if len(a["samples"]) < 5:
        a["samples"].extend(b["samples"][: 5 - len(a["samples"])])
    fa = a.setdefault("fam", {})
    for k, v in b.get("fam", {}).items():
        cur = fa.setdefault(k, [0, 0.0])
        cur[0] += v[0]
        cur[1] += v[1]
    a["capped"] = a["capped"] or b["capped"]
    a["max_dev"] = max(a["max_dev"], b["max_dev"])
    a["extra_runs"] += b["extra_runs"]
    return a


def jsonable(x):
    if isinstance(x, (list, tuple)):
        return [jsonable(y) for y in x]
    if isinstance(x, dict):
        return {str(k): jsonable(v) for k, v in x.items()}
    if isinstance(x, (str, int, bool)) or x is None:
        return x
    if isinstance(x, float):
        if x != x or x in (float("inf"), float("-inf")):
            return repr(x)
        return x
    return repr(x)


def abstract_walk(trace):
    """Yield (state, label) pairs: an abstraction of the retry loop's state after each
    environment-visible step.  Used only to *count* distinct states and edges."""
    ops = 0
    fails = []
    prev = None
    granted = 0
    brk = None
    phase = "start"
    el = 0.0
    call = 0
    for r in trace:
        k = r[0]
        if k == "call":
            call = r[1]
            ops = 0
            fails = []
            prev = None
            phase = "start"
            label = ("call", r[2])
        elif k == "op":
            ops = r[1]
            el = r[4]
            lab = r[2]
            if lab != "ok":
                fails.append(lab)
            phase = "op"
            label = ("op", lab, r[4] - r[3])
        elif k == "sleep":
            prev = r[2]
            el = r[4]
            phase = "slept"
            label = ("sleep", r[2], r[4] - r[3])
        elif k == "consume":
            granted += 1 if r[1] else 0
            label = ("consume", r[1])
        elif k == "poll":
            if not r[1]:
                continue
            phase = "abort"
            label = ("poll", True)
        elif k == "handler":
            phase = "h:" + str(r[4])
            label = ("handler", r[4])
        elif k == "brk":
            brk = r[4]
            label = ("brk", r[1], r[2])
        elif k == "tick":
            label = ("tick", r[1])
        elif k == "end":
            phase = "end"
            label = ("end",) + tuple(r[1:3]) + ((r[4],) if r[1] == "outcome" else ())
        elif k == "strategy":
            label = ("strategy", r[1], r[10])
        elif k == "susp":
            label = ("susp", r[1], r[2])
        else:
            continue
        yield (call, ops, tuple(fails), el, prev, granted, brk, phase), label


def explore_task(task, seed, runner, sig=None):
    """Explore one cell.  ``runner(cfg, entry, ch) -> (world, violations)`` where violations is
    a list of (key, message)."""
    cfg, entry, bound = task["cfg"], task["entry"], task["bound"]
    res = new_result()
    states = set()
    edges = set()
    want_sample = (seed + task.get("index", 0)) % 7

    def run(ch):
        return runner(cfg, entry, ch)

    def same(a, b):
        return a[0].trace == b[0].trace and a[1] == b[1]

    def on_exec(ch, r):
        w, viols = r
        res["execs"] += 1
        res["extra_runs"] += getattr(w, "extra_runs", 0)
        tr = w.trace
        prev_state = None
        for st, lab in abstract_walk(tr):
            states.add(st)
            edges.add((prev_state, lab, st))
            prev_state = st
        end = tr[-1]
        osig = sig(w) if sig is not None else outcome_sig(tr)
        res["outcomes"].add(osig[0])
        dev = ch.deviations()
        if dev > res["max_dev"]:
            res["max_dev"] = dev
        if osig[1] or dev:
            res["nontrivial"].add(hash(osig))
        if len(res["samples"]) < 2 and (res["execs"] % 7 == want_sample) and len(tr) > 4:
            res["samples"].append({"family": task["family"], "entry": entry,
                                   "choices": ch.labels(), "trace": jsonable(tr[:40])})
        if viols:
            res["nviol"] += len(viols)
            for key, msg in viols:
                res["viol_keys"][key] = res["viol_keys"].get(key, 0) + 1
                if len(res["violations"]) < MAX_VIOL_PER_TASK or not any(
                        v["key"] == key for v in res["violations"]):
                    res["violations"].append({
                        "key": key, "msg": msg, "family": task["family"], "cfg": cfg,
                        "entry": entry, "choices": list(ch.choices()), "labels": ch.labels(),
                        "extra": {k: task[k] for k in task
                                  if k not in ("cfg", "entry", "family", "index", "weight")},
                        "trace": jsonable(tr)})
        del end

    n, capped = explore(run, bound, on_exec, max_execs=task.get("cap"),
                        selfcheck_every=task.get("selfcheck", 64),
                        selfcheck_phase=seed % 64, same=same)
    res["states"] = len(states)
    res["transitions"] = len(edges)
    res["capped"] = capped
    return res


def outcome_sig(trace):
    """((end kind, reason, attempts), failure labels) of the last call in a trace."""
    ops = [r[2] for r in trace if r[0] == "op"]
    end = trace[-1]
    if end[0] != "end":
        return (("noend",), tuple(ops))
    if end[1] == "outcome":
        o = ("outcome", end[2], end[4], end[5])
    elif end[1] == "raise":
        o = ("raise", end[2], end[4][0] if end[4] else None, len(ops))
    else:
        o = (end[1], None, None, len(ops))
    return (o, tuple(x for x in ops if x != "ok"))


def replay_hash(v):
    s = json.dumps([v["family"], jsonable(v["cfg"]), v["entry"], v["choices"], v["key"]],
                   sort_keys=True)
    return hashlib.sha1(s.encode()).hexdigest()[:12]


def nest_tasks(entries, family, alpha, bound=1, **extra):
    """Families in which, while the call under test is inside a callback, a complete second call
    runs through the same policy object (single-threaded overlap).  The property's own monitor
    is applied to the outer call unchanged."""
    import itertools as _it
    out = []
    for site, e, script in _it.product(["aend", "metric", "strategy"], entries,
                                       [["x:P"], ["r:U", "x:U", "x:U"], ["ok"]]):
        cfg = dict(M=3, alphabet=alpha, attempt_hooks="call", max_unknown=1,
                   nest={"site": site, "entry": e, "script": script}, **extra)
        out.append({"family": family, "cfg": cfg, "entry": e, "bound": bound})
    return out


__all__ = ["run_world", "nest_tasks", "Divergence", "DiffChooser", "ReplayMismatch", "diff_chooser", "explore_task",
           "merge", "new_result", "jsonable", "outcome_sig", "replay_hash", "seq"]
