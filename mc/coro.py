"""E3: interleavings of concurrently running AsyncPolicy calls sharing one real breaker.

Coroutines are driven by hand (send / throw); the operation stub suspends once per attempt and
receives its outcome from the driver when it is resumed.  The explorer is the explicit-state
idiom: BFS over event histories, each history replayed on fresh objects, deduplicated on a
canonical key, every event checked against the identity-aware breaker reference.
"""

from __future__ import annotations

import asyncio
import collections

from . import env as E
from .brkspec import CONVENTIONS, HALF
from .seqcheck import new_result
from .statebfs import KL, breaker_canon, make_spec

redress = E.install()
from redress import AsyncPolicy, CircuitBreaker  # noqa: E402
from redress.errors import CircuitOpenError, ErrorClass  # noqa: E402
from redress.policy import AsyncRetry  # noqa: E402

TAU = E.TAU
LK = {v: k for k, v in KL.items()}


class Suspend:
    __slots__ = ("tag",)

    def __init__(self, tag):
        self.tag = tag

    def __await__(self):
        return (yield self)


class OpError(Exception):
    pass


KINDS = ["call", "execute", "call0", "execute0", "abort0"]


class Task:
    __slots__ = ("kind", "coro", "cids", "ops", "done", "records", "result", "admitted")


class AsyncBrkWorld:
    def __init__(self, cfg):
        self.cfg = cfg
        self.clock = E.Clock()
        E.set_clock(self.clock)
        world = self
        self.log = []  # breaker calls made during the current step

        class Spy(CircuitBreaker):
            def allow(self, *a, **kw):
                d = CircuitBreaker.allow(self, *a, **kw)
                world.log.append(("allow", d.allowed, d.state.value, d.event))
                return d

            def record_success(self, *a, **kw):
                r = CircuitBreaker.record_success(self, *a, **kw)
                world.log.append(("success", None, r))
                return r

            def record_failure(self, klass, *a, **kw):
                r = CircuitBreaker.record_failure(self, klass, *a, **kw)
                world.log.append(("failure", LK.get(klass), r))
                return r

            def record_cancel(self, *a, **kw):
                r = CircuitBreaker.record_cancel(self, *a, **kw)
                world.log.append(("cancel", None, r))
                return r

        kw = dict(failure_threshold=cfg["threshold"], window_s=cfg["window"] * TAU,
                  recovery_timeout_s=cfg["recovery"] * TAU, clock=E.v_monotonic,
                  trip_on={KL[k] for k in cfg["trip_on"]})
        self.b = Spy(**kw)
        self.specs = {c: make_spec(cfg, c) for c in CONVENTIONS}
        self.tasks = []
        self.diverged = None
        self.last_stale_half = False
        self.last_unadmitted = False
        self.retry = AsyncRetry(
            classifier=lambda exc: ErrorClass.TRANSIENT, strategy=lambda ctx: 0.0,
            max_attempts=2, deadline_s=1.0e6, max_unknown_attempts=None,
            sleeper=lambda s: None)
        self.pol = AsyncPolicy(retry=self.retry, circuit_breaker=self.b)
        self.pol0 = AsyncPolicy(retry=None, circuit_breaker=self.b)

    # ------------------------------------------------------------------------------------
    def _make_op(self, task):
        async def op():
            task.ops += 1
            r = await Suspend("op")
            if r == "ok":
                return ("val", task.ops)
            if r == "timeout":
                raise TimeoutError("upstream timeout")
            if r == "coe":
                # a downstream component's breaker is open: the operation raises the library's
                # own CircuitOpenError
                raise CircuitOpenError("downstream circuit is open")
            if r == "xc:T":
                # a fallback that fails inside `except CircuitOpenError:` (implicit chaining)
                try:
                    raise CircuitOpenError("another component's breaker is open")
                except CircuitOpenError:
                    raise OpError(r)
            raise OpError(r)
        return op

    def _step(self, task, how, arg=None):
        """Advance one coroutine until it suspends again or finishes."""
        try:
            if how == "send":
                tok = task.coro.send(arg)
            else:
                tok = task.coro.throw(arg)
            if getattr(tok, "tag", None) != "op":
                raise RuntimeError(f"unexpected suspension {tok!r}")
            return
        except StopIteration as e:
            task.done = True
            task.result = ("ret", e.value)
        except BaseException as e:  # noqa: BLE001
            task.done = True
            task.result = ("raise", e)

    def _drop(self, pred):
        for c in [c for c, s in self.specs.items() if pred(c, s)]:
            del self.specs[c]

    def apply(self, ev):
        self.log = []
        self.last_stale_half = False
        self.last_unadmitted = False
        k = ev[0]
        if k == "tick":
            self.clock.now += ev[1] * TAU
            return
        now = self.clock.now
        if k == "start":
            kind = ev[1]
            t = Task()
            t.kind, t.ops, t.done, t.records, t.result, t.admitted = kind, 0, False, [], None, False
            t.cids = {}
            op = self._make_op(t)
            if kind == "call":
                t.coro = self.pol.call(op)
            elif kind == "execute":
                t.coro = self.pol.execute(op)
            elif kind == "call0":
                t.coro = self.pol0.call(op)
            elif kind == "execute0":
                t.coro = self.pol0.execute(op)
            elif kind == "abort0":
                t.coro = self.pol0.call(op, abort_if=lambda: True)
            else:
                raise ValueError(kind)
            self._step(t, "send", None)
            allows = [r for r in self.log if r[0] == "allow"]
            others = [r for r in self.log if r[0] != "allow"]
            if kind == "abort0":
                # pre-flight abort: the call is never admitted
                if allows or t.ops:
                    self.diverged = ("c07.diverges", "pre-flight abort consulted the breaker or "
                                                     "invoked the operation")
                    return
                self.last_unadmitted = bool(others) and any(
                    s.mode == HALF and s.probe is not None for s in self.specs.values())
                for r in others:  # a record by a call that was never admitted
                    for c, s in list(self.specs.items()):
                        want = s.settle(None, r[0], r[1], now)
                        if want != r[2]:
                            del self.specs[c]
                if not self.specs:
                    self.diverged = ("c07.unadmitted-cancel" if self.last_unadmitted
                                     else "c07.diverges", f"record by an unadmitted call: {others}")
                return
            if len(allows) != 1:
                self.diverged = ("c07.diverges", f"start made {len(allows)} allow() calls")
                return
            got = tuple(allows[0][1:])
            for c, s in list(self.specs.items()):
                adm, st, event, cid = s.start(now)
                t.cids[c] = cid
                if (adm, st, event) != got:
                    del self.specs[c]
            if not self.specs:
                self.diverged = ("c07.admission", f"start({kind}) answered {got}")
                return
            t.admitted = got[0]
            if got[0]:
                if t.done or t.ops != 1:
                    self.diverged = ("c07.diverges", "admitted call did not invoke the operation")
                    return
                self.tasks.append(t)
            else:
                if t.ops or not t.done:
                    self.diverged = ("c07.invoked-when-rejected",
                                     f"rejected call invoked the operation {t.ops} times")
                    return
                res = t.result
                if kind.startswith("call"):
                    ok = res[0] == "raise" and isinstance(res[1], CircuitOpenError)
                else:
                    ok = (res[0] == "ret" and not res[1].ok and res[1].attempts == 0)
                if not ok or others:
                    self.diverged = ("c07.rejection-shape", f"rejected call ended with {res!r}, "
                                                            f"records {others}")
            return
        if k in ("resume", "cancel"):
            t = self.tasks[ev[1]]
            ops_before = t.ops
            if k == "resume":
                self._step(t, "send", ev[2])
            else:
                self._step(t, "throw", asyncio.CancelledError())
            records = [r for r in self.log if r[0] != "allow"]
            if any(r[0] == "allow" for r in self.log):
                self.diverged = ("c07.diverges", "allow() consulted in the middle of a call")
                return
            if not t.done:
                if records:
                    self.diverged = ("c07.diverges", f"breaker record {records} while the call "
                                                     f"goes on")
                del ops_before
                return
            self.tasks.pop(ev[1])
            # what the statement requires this ending to be recorded as
            if k == "cancel":
                want_kind = "cancel"
            elif t.result[0] == "ret" and (not hasattr(t.result[1], "ok") or t.result[1].ok):
                want_kind = "success"
            else:
                want_kind = "failure"
            got_kinds = [r[0] for r in records]
            is_probe = any(sp.mode == HALF and sp.probe is not None and sp.probe == t.cids.get(c)
                           for c, sp in self.specs.items())
            if not got_kinds and t.admitted and is_probe:
                self.diverged = ("c07.settlement-kind",
                                 f"task {t.kind} ended {t.result!r} ({'cancelled' if k == 'cancel' else ev[2]}) "
                                 f"as the half-open probe without telling the breaker anything; must be told {want_kind}")
                return
            if k == "resume" and ev[2] == "coe":
                # how this ending is recorded is not defined (any single record is accepted)
                want_kind = got_kinds[0] if len(got_kinds) == 1 else want_kind
            if got_kinds and got_kinds != [want_kind]:
                self.diverged = ("c07.settlement-kind",
                                 f"task {t.kind} ended {t.result!r} ({'cancelled' if k == 'cancel' else ev[2]}): "
                                 f"breaker was told {records}, must be told {want_kind}")
                return
            self.last_stale_half = any(
                s.mode == HALF and s.probe != t.cids.get(c) for c, s in self.specs.items())
            for r in records:
                for c, s in list(self.specs.items()):
                    want = s.settle(t.cids.get(c), r[0], r[1], now)
                    if want != r[2]:
                        del self.specs[c]
            if not self.specs:
                self.diverged = ("c07.stale-settle" if self.last_stale_half else "c07.settlement",
                                 f"task {t.kind} ended {t.result!r}: records {records}")
            return
        raise ValueError(ev)

    def lookahead(self):
        if self.diverged:
            return
        key = ("c07.stale-settle" if self.last_stale_half else
               "c07.unadmitted-cancel" if self.last_unadmitted else "c07.diverges")
        st = CircuitBreaker.state.fget(self.b).value
        live = {c: s for c, s in self.specs.items() if s.mode == st}
        if not live:
            self.diverged = (key, f"state is {st}, reference says "
                                  f"{sorted({s.mode for s in self.specs.values()})}")
            return
        d = CircuitBreaker.allow(self.b)
        got = (d.allowed, d.state.value, d.event)
        for c, s in live.items():
            s2 = s.clone()
            adm, st2, event, _ = s2.start(self.clock.now)
            if (adm, st2, event) == got:
                return
        self.diverged = (key, f"a call starting now is answered {got}; reference (probe "
                              f"outstanding {sorted({s.probe is not None for s in live.values()})}"
                              f", mode {sorted({s.mode for s in live.values()})}) disagrees")

    def key(self):
        now = self.clock.now
        outs = []
        for t in self.tasks:
            outs.append((t.kind, t.ops, _fingerprint(t.coro, now), tuple(sorted(
                (c, s.probe == t.cids.get(c), s.is_stale(t.cids.get(c)))
                for c, s in self.specs.items()))))
        return (breaker_canon(self.b, now),
                frozenset((c, s.key(now)) for c, s in self.specs.items()), tuple(sorted(outs)))

    def close_all(self):
        for t in self.tasks:
            try:
                t.coro.close()
            except BaseException:  # noqa: BLE001
                pass


_SIMPLE = (bool, int, str, type(None))


def _simple(v, now):
    if isinstance(v, _SIMPLE):
        return v
    if isinstance(v, float):
        return round(v - now, 9) if v >= 500 else v   # instants are time-translated
    if hasattr(v, "value") and type(v).__module__.startswith("redress"):   # enums
        return str(v)
    return None


def _fingerprint(coro, now):
    """Per-call state the library keeps *inside* a suspended call (locals of its coroutine frames,
    fields of its redress context objects).  Two histories whose breaker and reference states agree
    but whose suspended calls remember different things must not be merged."""
    out = []
    c, depth = coro, 0
    while c is not None and depth < 12:
        frame = getattr(c, "cr_frame", None) or getattr(c, "gi_frame", None)
        if frame is None:
            break
        for name, val in sorted(frame.f_locals.items()):
            s = _simple(val, now)
            if s is not None or val is None:
                if name not in ("self",):
                    out.append((depth, name, s))
            elif type(val).__module__.startswith("redress.policy") and not callable(val):
                fields = getattr(val, "__dict__", None)
                if fields is None and hasattr(type(val), "__slots__"):
                    fields = {k: getattr(val, k, None) for k in type(val).__slots__}
                if isinstance(fields, dict):
                    out.append((depth, name, type(val).__name__, tuple(
                        (k, _simple(fv, now)) for k, fv in sorted(fields.items())
                        if _simple(fv, now) is not None)))
        c = getattr(c, "cr_await", None) or getattr(c, "gi_yieldfrom", None)
        depth += 1
    return tuple(out)


def replay(cfg, hist):
    w = AsyncBrkWorld(cfg)
    for ev in hist:
        w.apply(ev)
        if w.diverged:
            break
    return w


def bfs_async(cfg, depth, max_out, kinds, seed=0):
    res = new_result()
    ticks = sorted({1, cfg["recovery"]})
    seen = {}
    frontier = collections.deque([()])
    trans = 0
    outcomes = set()
    while frontier:
        hist = frontier.popleft()
        if len(hist) >= depth:
            continue
        w0 = replay(cfg, hist)
        n_out = len(w0.tasks)
        w0.close_all()
        events = [("tick", d) for d in ticks]
        if n_out < max_out:
            events += [("start", k) for k in kinds]
        elif "abort0" in kinds:
            events.append(("start", "abort0"))
        for i in range(n_out):
            events += [("resume", i, "ok"), ("resume", i, "x:T"), ("resume", i, "timeout"),
                       ("cancel", i)]
            if cfg.get("chained"):
                events.append(("resume", i, "xc:T"))
                events.append(("resume", i, "coe"))
        for ev in events:
            h2 = hist + (ev,)
            w = replay(cfg, h2)
            trans += 1
            key = None
            if not w.diverged:
                key = w.key()
                w.lookahead()
            w.close_all()
            if w.diverged:
                k, msg = w.diverged
                outcomes.add(("diverged", k))
                res["nviol"] += 1
                res["viol_keys"][k] = res["viol_keys"].get(k, 0) + 1
                if not any(v["key"] == k for v in res["violations"]):
                    res["violations"].append({
                        "key": k, "msg": f"after {list(h2)}: {msg}", "family": "async-interleave",
                        "cfg": cfg, "entry": "AsyncPolicy", "choices": [list(e) for e in h2],
                        "labels": [list(e) for e in h2], "trace": [],
                        "extra": {"depth": depth, "max_out": max_out, "kinds": kinds}})
                continue
            outcomes.add((ev[0], ev[1] if ev[0] == "start" else None, len(w.tasks)))
            if key not in seen:
                seen[key] = h2
                frontier.append(h2)
                if len(res["samples"]) < 2 and len(h2) >= min(depth, 5) and (len(seen) + seed) % 61 == 0:
                    res["samples"].append({"family": "async-interleave", "cfg": cfg,
                                           "history": [list(e) for e in h2]})
    res["execs"] = trans
    res["states"] = len(seen)
    res["transitions"] = trans
    res["outcomes"] = outcomes
    res["nontrivial"] = {hash(k) for k in seen}
    return res
