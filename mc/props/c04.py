"""C04 - call() surfaces exactly the last attempt's value or exception."""

from __future__ import annotations

import itertools

from ..final import check_call
from ..kernel import Chooser
from ..lazy import seq
from ..seqcheck import explore_task, nest_tasks, run_world
from ..tracelib import split_calls

PID = "C04"
ENTRIES = ["Retry.call", "AsyncRetry.call", "Policy.call", "AsyncPolicy.call",
           "RetryPolicy.call", "AsyncRetryPolicy.call", "Retry.context", "AsyncRetry.context"]
ALPHA = ["ok", "x:T", "r:T", "x:U", "r:U", "x:P", "r:P", "x:T@"]

META = {
    "level": "model_checking",
    "engine": "E1 seq",
    "rule": ("configuration lattice x every outcome sequence mixing exception and result failures "
             "(free) x stop reasons reached through handler decisions, abort polls, deadline and "
             "budget (bounded deviations), on 8 call-style entry points; identity (not equality) "
             "of the delivered object is checked; distinct = (end kind, reason, attempts, "
             "failure sequence)"),
    "assumptions": ["attempt_timeout_s=None except in the attempt-timeout families (owned executor / virtual loop) and in surface-late-attempt (the library's real threads, event-sequenced; DESIGN 11.8)",
                    "aborted runs are judged by C13, cancellation-type endings by C13"],
    "min_outcomes": {"quick": 10},
}


def bounds(tier):
    return {"max_attempts": [1, 2, 3], "deviation_bound": 2 if tier == "quick" else 3}


def tasks(tier):
    out = []
    bound = 2 if tier == "quick" else 3
    pcs = [{}, {"T": 1}] if tier == "quick" else [{}, {"T": 1}, {"T": 0}, {"U": 1}]
    for M, pc, mu, dl, bud in itertools.product(
            [1, 2, 3], pcs, [None, 1], [None, 3], [None, {"max": 1, "window": 8}]):
        cfg = dict(M=M, per_class=pc, max_unknown=mu, deadline=dl, budget=bud, alphabet=ALPHA,
                   durs=[0, 2], overshoot=[0, 2], abort=True, handler="call", strat_menu=[1, 9, 0],
                   strat={"default": "ctx", "per": {}} if mu is None else
                   {"default": None, "per": {"T": "ctx", "U": "legacy"}})
        for e in ENTRIES:
            out.append({"family": "surface", "cfg": cfg, "entry": e, "bound": bound, "weight": M})
    out += nest_tasks(["Retry.call", "AsyncRetry.call", "Policy.call"], "surface-reentrant",
                      ["ok", "x:T", "r:T", "x:U", "x:T@"], handler="call")
    for M, e, rc in itertools.product([2, 3], ["Retry.call", "AsyncRetry.call", "RetryPolicySet.call", "AsyncRetryPolicySet.call"], ["pure", "oneshot"]):
        cfg = dict(M=M, alphabet=["ok", "x:T", "r:T", "r:R", "x:U"], handler="call", rc_mode=rc,
                   strat_menu=[1, 0], strat_free=True, max_unknown=1,
                   strat={"default": None, "per": {"T": "ctx", "R": "legacy", "U": "ctx+opt"}})
        out.append({"family": "surface-classified-once", "cfg": cfg, "entry": e, "bound": 1})
    # attempt_timeout_s configured (sync, owned executor) and the operation itself raises
    # TimeoutError well within the timeout: it is that attempt's own exception
    for M, e in itertools.product([1, 2, 3], ["Retry.call", "Policy.call", "RetryPolicy.call"] + ["AsyncRetry.call", "AsyncPolicy.call", "adeco"]):
        cfg = dict(M=M, alphabet=["ok", "x:T", "timeout", "r:T"], attempt_timeout=2, durs=[0, 1, 10],
                   max_unknown=None, handler="call" if "deco" not in e else None,
                   sleeper="call" if "deco" not in e else "policy",
                   loop=e.startswith("Async") or e == "adeco",
                   sleeper_async=e.startswith("Async") or e == "adeco")
        out.append({"family": "surface-attempt-timeout", "cfg": cfg, "entry": e, "bound": 1})
    # the sync attempt timeout on the library's REAL threads: the attempt that overran is still
    # running; it finishes (value, rejected value or exception) during the following backoff
    # sleep, after the next attempt has started, or after the call has ended
    late = ["ok", "x:T"] if tier == "quick" else ["ok", "x:T", "r:T"]
    for M, e in itertools.product([2] if tier == "quick" else [2, 3],
                                  ["Retry.call", "Policy.call", "RetryPolicy.call", "deco", "Retry.context"]):
        cfg = dict(M=M, alphabet=["ok", "x:T"] if tier == "quick" else ["ok", "x:T", "r:T"],
                   attempt_timeout=2, durs=[0, 10], real_executor=True, late_menu=late,
                   max_unknown=None, handler="call" if e != "deco" else None,
                   handler_menu=["SLEEP"], sleeper="call" if e != "deco" else "policy")
        out.append({"family": "surface-late-attempt", "cfg": cfg, "entry": e, "bound": 1,
                    "selfcheck": 0})
    # a successful attempt whose value is an exception instance (with and without an attempt
    # timeout, which hands the value across threads); exception groups with a single member as
    # the attempt's failure (the group is the attempt's exception, not its member)
    for M, at, e in itertools.product([1, 2], [None, 2], ["Retry.call", "Policy.call", "RetryPolicy.call", "deco",
                                                        "AsyncRetry.call", "AsyncPolicy.call"]):
        is_async = e.startswith("Async")
        cfg = dict(M=M, alphabet=["okx", "x:T", "r:T", "ok"], attempt_timeout=at, real_executor=at is not None and not is_async,
                   durs=[0], max_unknown=None, handler="call" if e != "deco" else None,
                   sleeper="call" if e != "deco" else "policy",
                   loop=is_async and at is not None, sleeper_async=is_async and at is not None)
        out.append({"family": "surface-exception-value", "cfg": cfg, "entry": e, "bound": 1})
    for M, e in itertools.product([1, 2, 3], ENTRIES + ["deco", "adeco"]):
        cfg = dict(M=M, alphabet=["ok", "xg:T", "xg:P", "x:T", "r:T"], max_unknown=None,
                   handler="call" if "deco" not in e else "policy", sleeper="call" if "deco" not in e else "policy")
        out.append({"family": "surface-exception-group", "cfg": cfg, "entry": e, "bound": 1})
    # the attempt raises a nested policy's RetryExhaustedError (with and without a last_exception)
    for M, e in itertools.product([1, 2, 3], ENTRIES + ["deco", "adeco"]):
        cfg = dict(M=M, alphabet=["ok", "nested+exc", "nested", "x:T", "r:T"], max_unknown=None,
                   sleeper="call" if "deco" not in e else "policy")
        out.append({"family": "surface-nested-exhausted", "cfg": cfg, "entry": e, "bound": 0})
    # async: the successful attempt's return value is itself an awaitable object (a handle the
    # caller wants back, e.g. a Task or a lazy response): it is returned, not awaited
    for M, rcf, e in itertools.product([1, 2, 3], [False, True],
                                  ["AsyncRetry.call", "AsyncPolicy.call", "AsyncPolicy0.call",
                                   "AsyncRetryPolicy.call", "adeco", "AsyncRetry.context"]):
        if "0" in e and (rcf or M > 1):
            continue
        cfg = dict(M=M, alphabet=["ok", "x:T", "r:T"] if rcf else ["ok", "x:T"],
                   ok_awaitable=True, max_unknown=None, force_rc=rcf,
                   sleeper="call" if "deco" not in e else "policy")
        out.append({"family": "surface-awaitable-value", "cfg": cfg, "entry": e, "bound": 1})
    # nobody observes the run: no metric hook, no log hook, no attempt hooks, no abort predicate
    for M, rcf, e in itertools.product([1, 2, 3], [False, True], ["Retry.call", "AsyncRetry.call", "Policy.call", "AsyncPolicy.call",
                                                                 "RetryPolicy.call", "AsyncRetryPolicy.call", "adeco", "deco"]):
        cfg = dict(M=M, alphabet=["ok", "x:T", "r:T", "r:P"] if rcf else ["ok", "x:T", "x:P"], force_rc=rcf,
                   metric=False, log=False, max_unknown=None, sleeper="call" if "deco" not in e else "policy")
        out.append({"family": "surface-unobserved", "cfg": cfg, "entry": e, "bound": 1})
    # an on_attempt_end hook that raises on some notification: whatever becomes of that error,
    # the operation is never invoked again after an attempt that succeeded
    for M, idx, e in itertools.product([2, 3], [0, 1], ["Retry.call", "AsyncRetry.call", "Policy.call", "AsyncPolicy.call"]):
        cfg = dict(M=M, alphabet=["ok", "x:T", "r:T"], attempt_hooks="call", max_unknown=None,
                   faults=[("aend", idx, "RuntimeError")], strat_obj=True)
        out.append({"family": "surface-end-hook-fault", "cfg": cfg, "entry": e, "bound": 0})
    # the call is the half-open probe of a breaker and the result classifier rejects the value
    PROBE = {"threshold": 1, "window": 8, "recovery": 2, "trip_on": ["T", "U", "P"],
             "pre": [("fail", "T"), ("tick", 2)]}
    for M, e in itertools.product([2, 3], ["Policy.call", "AsyncPolicy.call", "RetryPolicy.call", "Policy.context"]):
        cfg = dict(M=M, alphabet=["ok", "r:T", "x:T", "r:P"], force_rc=True, breaker=PROBE,
                   max_unknown=None, handler="call")
        out.append({"family": "surface-probe", "cfg": cfg, "entry": e, "bound": 1})
    # exception instances that refuse attribute assignment (frozen dataclass exceptions)
    for M, e in itertools.product([1, 2, 3], ["Retry.call", "AsyncRetry.call", "Policy.call", "AsyncPolicy.call",
                                              "RetryPolicy.call", "deco"]):
        cfg = dict(M=M, alphabet=["ok", "xi:T", "xi:P", "x:T", "r:T"], max_unknown=None,
                   handler="call" if e != "deco" else None, sleeper="call" if e != "deco" else "policy",
                   breaker={"threshold": 3, "window": 8, "recovery": 2, "trip_on": ["T", "U", "P"]}
                   if e.startswith(("Policy", "AsyncPolicy")) else None)
        out.append({"family": "surface-frozen-exception", "cfg": cfg, "entry": e, "bound": 1})
    # exception objects whose truth value is False
    for M, e in itertools.product([1, 2, 3], ["Retry.call", "Policy.call", "RetryPolicy.call", "AsyncRetry.call",
                                              "AsyncPolicy.call", "Retry.context"]):
        cfg = dict(M=M, alphabet=["ok", "xf:T", "xf:P", "r:T", "x:T"], max_unknown=None,
                   handler="call", deadline=4, durs=[0, 3])
        out.append({"family": "surface-falsy-exception", "cfg": cfg, "entry": e, "bound": 1})
    # the operation returns None and the result classifier rejects None
    for M, e in itertools.product([2, 3], ["Retry.call", "Policy.call", "RetryPolicy.call"] + ["AsyncRetry.call", "AsyncPolicy.call",]):
        cfg = dict(M=M, alphabet=["ok", "rn:T", "x:T", "rn:P"], force_rc=True, max_unknown=None,
                   handler="call")
        out.append({"family": "surface-none-result", "cfg": cfg, "entry": e, "bound": 1})
    return out


def monitor(w, cfg):
    v = []
    if any(f[0] == "aend" for f in cfg["faults"] or ()):
        for call in split_calls(w.trace):
            seen_ok = False
            for o in call.ops:
                if seen_ok:
                    v.append(("c04.invoked-after-success",
                              f"operation invoked again ({o}) after an attempt that succeeded"))
                    break
                seen_ok = seen_ok or (o.kind == "ok" and not cfg["force_rc"])
        return v
    for call in split_calls(w.trace):
        v.extend(check_call(cfg, call))
    return v


def run_plain(cfg, entry, ch):
    full = seq.mkcfg(**cfg)
    w, judge = run_world(full, entry, ch)
    return w, (monitor(w, full) if judge else [])


def run_task(task, seed):
    return explore_task(task, seed, run_plain)


def replay(doc):
    return run_plain(doc["cfg"], doc["entry"], Chooser(tuple(doc["choices"])))
