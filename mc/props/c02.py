"""C02 - deadline envelope: no attempt starts and no sleep extends past deadline_s."""

from __future__ import annotations

import itertools

from ..kernel import Chooser
from ..lazy import seq
from ..seqcheck import Divergence, DiffChooser, explore_task, nest_tasks
from ..spec import deadline_s
from ..tracelib import first_diff, split_calls

PID = "C02"
Q4 = ["Retry.call", "Retry.execute", "AsyncRetry.call", "AsyncRetry.execute"]

META = {
    "level": "model_checking",
    "engine": "E1 seq",
    "rule": ("for each deadline and entry point, every timing of the run on the virtual monotonic "
             "clock: per attempt outcome x duration x strategy answer x sleeper overshoot (all "
             "free), wall-clock jumps (+/-1e9 s at any read) as deviations; distinct = (end kind, "
             "reason, attempts, failure sequence)"),
    "assumptions": [
        "attempt_timeout_s=None",
        "sleeper overshoot >= 0",
        "decided at tick resolution (0.125 s); the library rounds elapsed time to microseconds",
    ],
    "min_outcomes": {"quick": 8},
}


def bounds(tier):
    return {"deadline_ticks": [0, 2, 3, 4], "max_attempts": 3,
            "wall_jump_deviations": 1 if tier == "quick" else 2}


def tasks(tier):
    out = []
    if tier == "quick":
        durs, menu = [0, 1, 3], [1, 0, 9]
    else:
        durs, menu = [0, 1, 2, 3, 5], [1, 0, 2, 9, "nan", "inf", -1]
    for D, sl, hd in itertools.product([0, 2, 3, 4], ["call", None], [None, "call"]):
        if hd and sl is None:
            continue
        cfg = dict(M=3, deadline=D, ra_ticks=9,
                   alphabet=["ok", "x:T", "r:R", "x:R+ra", "r:R+ra"] if tier == "thorough" else
                   ["ok", "x:T", "r:R+ra"],
                   durs=durs, dur_free=True,
                   strat_menu=menu, strat_free=True, overshoot=[0, 1, 3], over_free=True,
                   sleeper=sl, handler=hd, handler_menu=["SLEEP"], wall_jumps=True,
                   max_unknown=None)
        for e in Q4:
            for first in cfg["alphabet"]:
                out.append({"family": "envelope", "cfg": dict(cfg, script_prefix=[first]),
                            "entry": e, "bound": 1 if tier == "quick" else 2,
                            "weight": 1 if first == "ok" else 5})
    for D, e in itertools.product([2, 4], ["RetrySet.call", "RetrySet.execute", "AsyncRetrySet.call",
                                           "RetryPolicySet.call", "AsyncRetryPolicySet.execute"]):
        cfg = dict(M=3, deadline=D, alphabet=["ok", "x:T", "r:R"], durs=[0, 1, 3], dur_free=True,
                   strat_menu=[1, 9], strat_free=True, overshoot=[0, 3], over_free=True,
                   max_unknown=None, sleeper="policy")
        out.append({"family": "envelope-assigned", "cfg": cfg, "entry": e, "bound": 0, "weight": 3})
    # a deadline that is not a multiple of the clock tick nor of a millisecond (0.3754 s), through
    # the plain constructor and through RetryConfig
    for e in Q4 + ["RetryCfg.call", "AsyncRetryCfg.execute", "RetryPolicyCfg.execute",
                   "AsyncRetryPolicyCfg.call", "RetryPolicySet.call", "deco", "adeco",
                   "RetryPolicy.call", "AsyncRetryPolicy.execute", "Policy.context",
                   "AsyncPolicy.context", "Retry.context", "AsyncRetry.context"]:
        cfg = dict(M=3, deadline=3.0032, alphabet=["ok", "x:T", "r:R"], durs=[0, 1, 3, 4],
                   dur_free=True, strat_menu=[1, 9], strat_free=True, overshoot=[0, 1],
                   over_free=True, max_unknown=None, sleeper="policy")
        out.append({"family": "envelope-fractional", "cfg": cfg, "entry": e, "bound": 0, "weight": 3})
    # time passes inside the strategy object's record_failure(), i.e. between the library's
    # deadline test and its computation of the remaining time
    for D, e in itertools.product([2, 3], Q4):
        cfg = dict(M=3, deadline=D, alphabet=["ok", "x:T", "r:R"], durs=[0, 1], dur_free=True,
                   strat_menu=[1, 9], strat_free=True, strat_obj=True, rec_durs=[0, 1, 2, 4],
                   max_unknown=None, sleeper="call")
        out.append({"family": "envelope-slow-record", "cfg": cfg, "entry": e, "bound": 2, "weight": 3})
    # the strategy itself raises on a later failure: whatever the library does then, no sleep may
    # exceed the time remaining
    for D, idx, e in itertools.product([3, 4], [1, 2], Q4):
        cfg = dict(M=4, deadline=D, alphabet=["ok", "x:T", "r:R"], durs=[0, 1], dur_free=True,
                   strat_menu=[3, 1, 9], strat_free=True, max_unknown=None, sleeper="call",
                   faults=[("strategy", idx, "KeyError")])
        out.append({"family": "envelope-strategy-fault", "cfg": cfg, "entry": e, "bound": 0})
    # strategy answers that are ints (seconds)
    for D, e in itertools.product([3, 5], Q4):
        cfg = dict(M=3, deadline=D, alphabet=["ok", "x:T", "r:R"], durs=[0, 1], dur_free=True,
                   strat_menu=["int:1", "int:2", 1], strat_free=True, max_unknown=None, sleeper="call")
        out.append({"family": "envelope-int-answers", "cfg": cfg, "entry": e, "bound": 0})
    # an abort predicate is configured (it never fires) and the delay is capped by the deadline
    for D, e in itertools.product([3, 5, 7], Q4 + ["Policy.call", "RetryPolicy.execute"]):
        cfg = dict(M=3, deadline=D, alphabet=["ok", "x:T", "r:R"], durs=[0, 1], dur_free=True,
                   strat_menu=[9, 20], strat_free=True, max_unknown=None, sleeper="call", abort=True)
        out.append({"family": "envelope-abort-configured", "cfg": cfg, "entry": e, "bound": 0})
    # a sleeper that is interrupted part-way (InterruptedError after half of the wait): whatever
    # the library makes of it, every request fits the time then remaining; and every failure
    # class goes through the same cap
    for D, e in itertools.product([3, 6], Q4 + ["Policy.call", "RetryPolicy.execute", "deco"]):
        cfg = dict(M=3, deadline=D, alphabet=["ok", "x:T", "r:R"], durs=[0, 1], dur_free=True,
                   strat_menu=[4, 2, 9], strat_free=True, max_unknown=None,
                   sleeper="call" if e != "deco" else "policy", overshoot=[0, "intr"], over_free=True)
        out.append({"family": "envelope-interrupted-sleeper", "cfg": cfg, "entry": e, "bound": 0})
    for D, fr, e in itertools.product([3, 5], [0.0, 1.0], Q4):
        cfg = dict(M=3, deadline=D, alphabet=["ok"] + [f"x:{k}" for k in "TRSCU"] + ["r:C", "r:S"],
                   durs=[0, 1], dur_free=True, strat_menu=[9, 1, 3], strat_free=True,
                   max_unknown=None, sleeper="call", frac=fr)
        out.append({"family": "envelope-every-class", "cfg": cfg, "entry": e, "bound": 0})
    # long deadlines (an hour) with attempts and backoffs of more than ten minutes each: the
    # elapsed time is the monotonic clock's, however far apart two readings are
    for e in Q4:
        cfg = dict(M=8, deadline=28800, alphabet=["x:T", "ok"], durs=[5600], strat_menu=[8, 8000],
                   strat_free=True, max_unknown=None, sleeper="call")
        out.append({"family": "envelope-long-gaps", "cfg": cfg, "entry": e, "bound": 0})
    for t in nest_tasks(Q4, "envelope-reentrant", ["ok", "x:T", "r:R"], bound=1, deadline=3,
                        durs=[0, 2], dur_free=True, strat_menu=[1, 9], overshoot=[0, 3]):
        t["cfg"]["nest"] = dict(t["cfg"]["nest"], script=["x:T", "ok"])
        out.append(t)
    for D, at, e in itertools.product([3, 4], [1, 2, 6], Q4):
        cfg = dict(M=3, deadline=D, alphabet=["ok", "x:T", "r:R"], durs=[0, 1, 3, 5], dur_free=True,
                   strat_menu=[1, 0, 9], strat_free=True, overshoot=[0, 1, 3], over_free=True,
                   attempt_timeout=at, loop=e.startswith("Async"),
                   sleeper_async=e.startswith("Async"), max_unknown=None)
        for first in cfg["alphabet"]:
            out.append({"family": "envelope-attempt-timeout", "cfg": dict(cfg, script_prefix=[first]),
                        "entry": e, "bound": 0, "weight": 3})
    return out


def monitor(w, cfg):
    v = []
    D = deadline_s(cfg)
    for call in split_calls(w.trace):
        total = 0.0
        stop_seen = None
        for r in call.records:
            k = r[0]
            if k == "op":
                el0 = r[3] - call.t_start
                el1 = r[4] - call.t_start
                if el0 > D + 1e-9:
                    v.append(("c02.attempt-after-deadline",
                              f"attempt {r[1]} begins at elapsed {el0} > deadline {D}"))
                if stop_seen is not None:
                    v.append(("c02.retry-after-late-failure",
                              f"attempt {r[1]} invoked although attempt {stop_seen} failed at or "
                              f"after the deadline"))
                if r[2] != "ok" and el1 >= D:
                    stop_seen = r[1]
            elif k == "sleep":
                s = r[2]
                el = r[3] - call.t_start
                if not isinstance(s, float) or s < 0:
                    v.append(("c02.bad-sleep", f"sleeper called with {s!r}"))
                    continue
                if len(r) > 5 and isinstance(r[5], int) and r[4] - r[3] < s:
                    total += r[4] - r[3]   # a sleeper that raised part-way: what really passed
                else:
                    total += s
                if s > D - el + 1e-9:
                    v.append(("c02.sleep-past-deadline",
                              f"sleep of {s} requested at elapsed {el}, only {D - el} remains"))
                if stop_seen is not None:
                    v.append(("c02.retry-after-late-failure",
                              f"sleep requested although attempt {stop_seen} failed at or after "
                              f"the deadline"))
        if total > D:
            v.append(("c02.total-sleep", f"total requested sleep {total} > deadline {D}"))
    return v


def run_env(cfg, entry, ch):
    full = seq.mkcfg(**cfg)
    w = seq.World(full, ch)
    w.call(entry)
    v = monitor(w, full)
    if any(e[0] == "wall" for e in ch.log):
        # differential: the same timings with a steady wall clock must give the same run
        sub = [e for e in ch.log if e[0] != "wall"]
        ch2 = DiffChooser(tuple(e[2] for e in sub), tuple((e[0], e[1]) for e in sub))
        steady = dict(full, wall_jumps=False)
        try:
            w2 = seq.World(steady, ch2)
            w2.call(entry)
            d = first_diff(w.trace, w2.trace)
            if d is not None and any(e[0] == "wall" and e[2] for e in ch.log):
                v.append(("c02.wall-clock-influence",
                          f"run differs under wall-clock jumps at step {d[0]}: {d[1]} vs {d[2]}"))
        except Divergence as e:
            v.append(("c02.wall-clock-influence", f"wall-clock jump changes the run: {e}"))
        w.extra_runs = 1
    return w, v


def run_task(task, seed):
    return explore_task(task, seed, run_env)


def replay(doc):
    return run_env(doc["cfg"], doc["entry"], Chooser(tuple(doc["choices"])))
