"""C17 - Budget and CircuitBreaker are atomic under concurrent threads."""

from __future__ import annotations

PID = "C17"

META = {
    "level": "model_checking",
    "engine": "E4 thread",
    "rule": ("small concurrent programs (2 threads x 1-2 operations, 3 threads x 1 operation) over "
             "the public operations of one shared real CircuitBreaker / Budget from the relevant "
             "initial states; every interleaving with pre-emption possible before every source "
             "line of the component (sys.monitoring LINE events; thorough adds every bytecode) up "
             "to the stated pre-emption bound, the instance lock replaced by a cooperative model "
             "lock; oracle: per-thread results, final state and follow-up probe answers equal "
             "those of some sequential order; no enabled thread while one is unfinished = "
             "deadlock; states = nodes of the schedule tree; distinct = distinct (program, "
             "results, final state) outcomes"),
    "assumptions": ["clock constant during the concurrent phase",
                    "scheduling points at source lines (thorough: bytecodes) of circuit.py and "
                    "budget.py and at lock acquire/release; memory model = sequential consistency "
                    "(CPython with the GIL)"],
    "min_outcomes": {"quick": 20},
}

BRK = {"threshold": 2, "window": 8, "recovery": 2}
BRK1 = {"threshold": 1, "window": 8, "recovery": 2}


def programs():
    P = []

    def brk(name, setup, threads, cfg=BRK1):
        P.append({"name": name, "component": "breaker", "cfg": cfg, "setup": setup,
                  "threads": threads})

    def bud(name, cfg, setup, threads):
        P.append({"name": name, "component": "budget", "cfg": cfg, "setup": setup,
                  "threads": threads})

    due = [("failure", "T"), ("tick", 2)]
    half_free = due + [("allow",), ("cancel",)]
    half_probe = due + [("allow",)]
    brk("open-due allow||allow", due, [[("allow",)], [("allow",)]])
    brk("open-due allow||allow||allow", due, [[("allow",)], [("allow",)], [("allow",)]])
    brk("half-open-free allow||allow", half_free, [[("allow",)], [("allow",)]])
    brk("near-threshold failure||failure", [("failure", "T")],
        [[("failure", "T")], [("failure", "T")]], BRK)
    brk("near-threshold failure||failure||failure", [("failure", "T")],
        [[("failure", "T")], [("failure", "T")], [("failure", "T")]], BRK)
    brk("probe success||failure", half_probe, [[("success",)], [("failure", "T")]])
    brk("probe cancel||allow", half_probe, [[("cancel",)], [("allow",)]])
    brk("probe failure||allow", half_probe, [[("failure", "T")], [("allow",)]])
    brk("probe success||allow", half_probe, [[("success",)], [("allow",)]])
    brk("closed [allow;failure]||[allow;failure]", [],
        [[("allow",), ("failure", "T")], [("allow",), ("failure", "T")]], BRK)
    brk("open-due allow||state", due, [[("allow",)], [("state",)]])
    brk("probe success||state", half_probe, [[("success",)], [("state",)]])
    brk("near-threshold failure||state", [("failure", "T")], [[("failure", "T")], [("state",)]], BRK)
    brk("open-not-due allow||failure", [("failure", "T"), ("tick", 1)],
        [[("allow",)], [("failure", "T")]])
    # the probe's success closes the circuit while another thread is already waiting for the
    # lock, and the closing thread goes straight on to its next operation
    brk("probe [success;failure]||failure", half_probe,
        [[("success",), ("failure", "T")], [("failure", "T")]])
    brk("probe(thr 2) [success;failure]||failure", [("failure", "T")] + half_probe,
        [[("success",), ("failure", "T")], [("failure", "T")]], BRK)
    brk("probe [success;allow]||failure", half_probe,
        [[("success",), ("allow",)], [("failure", "T")]])
    # the injected clock fails once during one operation: that operation raises, everybody else
    # goes on (no lock is left behind)
    brk("closed faulty-allow||allow", [], [[("faulty", ("allow",))], [("allow",)]])
    brk("near-threshold faulty-failure||failure||state", [("failure", "T")],
        [[("faulty", ("failure", "T"))], [("failure", "T")], [("state",)]], BRK)
    BRK3 = {"threshold": 3, "window": 8, "recovery": 2}
    brk("failure||failure||tick (threshold 3)", [], [[("failure", "T")], [("failure", "T")],
                                                     [("tick", 3)]], BRK3)
    brk("probe failure||state", half_probe, [[("failure", "T")], [("state",)]])
    brk("probe failure||state||allow", half_probe, [[("failure", "T")], [("state",)], [("allow",)]])
    BRKC = {"threshold": 5, "window": 8, "recovery": 2, "class_thresholds": {"T": 2}}
    brk("class-threshold failure||failure", [], [[("failure", "T")], [("failure", "T")]], BRKC)
    brk("class-threshold one-short failure||failure||state", [("failure", "T")],
        [[("failure", "T")], [("failure", "T")], [("state",)]],
        {"threshold": 5, "window": 8, "recovery": 2, "class_thresholds": {"T": 3}})
    b2 = {"max": 2, "window": 4}
    bud("one-left consume||consume", b2, [("consume", 1)], [[("consume", 1)], [("consume", 1)]])
    bud("consume2||consume1", b2, [], [[("consume", 2)], [("consume", 1)]])
    bud("one-left consume2||consume1", b2, [("consume", 1)], [[("consume", 2)], [("consume", 1)]])
    bud("two-left-of-three consume3||consume1||remaining", {"max": 3, "window": 4}, [("consume", 1)],
        [[("consume", 3)], [("consume", 1)], [("remaining",)]])
    bud("consume||remaining", b2, [("consume", 1)], [[("consume", 1)], [("remaining",)]])
    bud("three consumers two tokens", b2, [],
        [[("consume", 1)], [("consume", 1)], [("consume", 1)]])
    bud("boundary one-left consume||consume", b2, [("consume", 1), ("tick", 4), ("consume", 1)],
        [[("consume", 1)], [("consume", 1)]])
    bud("boundary consume2||consume1", b2, [("consume", 1), ("tick", 4)],
        [[("consume", 2)], [("consume", 1)]])
    bud("boundary consume||remaining", b2, [("consume", 2), ("tick", 4)],
        [[("consume", 1)], [("remaining",)]])
    bud("[consume;consume]||[consume;remaining]", {"max": 3, "window": 4}, [],
        [[("consume", 1), ("consume", 1)], [("consume", 1), ("remaining",)]])
    # the clock advances while the operations race (a third party: the ticker)
    bud("consume||consume||tick then later consume", b2, [("consume", 1), ("tick", 2)],
        [[("consume", 1)], [("consume", 1)], [("tick", 3)]])
    bud("consume||[tick;consume]", b2, [("consume", 1)],
        [[("consume", 1)], [("tick", 3), ("consume", 1)]])
    brk("open-almost-due allow||tick||allow", [("failure", "T"), ("tick", 1)],
        [[("allow",)], [("tick", 1)], [("allow",)]])
    return P


def bounds(tier):
    return ({"line_granularity": "pre-emption bound 2 (3 for 2-thread x 1-op programs)"}
            if tier == "quick" else
            {"line_granularity": "complete (unbounded) for 2 threads x 1 op, bound 3 otherwise",
             "bytecode_granularity": "pre-emption bound 2 (1 for 3-thread programs)"})


def tasks(tier):
    out = []
    for p in programs():
        nthreads = len(p["threads"])
        nops = sum(len(t) for t in p["threads"])
        small = nthreads == 2 and nops == 2
        if tier == "quick":
            out.append({"family": "threads", "cfg": p, "entry": "line",
                        "bound": 3 if small else 2, "weight": nops})
        else:
            out.append({"family": "threads", "cfg": p, "entry": "line",
                        "bound": 10 ** 6 if small else 3, "weight": 10 if small else nops})
            out.append({"family": "threads", "cfg": p, "entry": "instruction",
                        "bound": 2 if nthreads == 2 and nops <= 2 else 1, "weight": 8})
    return out


def run_task(task, seed):
    from .. import threads
    return threads.explore_program(task["cfg"], task["bound"], task["entry"], seed)


def replay(doc):
    from .. import threads
    from ..kernel import Chooser
    threads.setup_monitoring(doc["entry"])
    prog = doc["cfg"]
    prog["threads"] = [[tuple(op) for op in t] for t in prog["threads"]]
    prog["setup"] = [tuple(op) for op in prog["setup"]]
    class W:
        pass
    try:
        allowed = threads.sequential_outcomes(prog)
    except threads.SelfDeadlock as e:
        W.trace = [("sequential", str(e))]
        return W, [("c17.deadlock", str(e))]
    kind, out, trace = threads.run_program(prog, Chooser(tuple(doc["choices"])))
    W.trace = [("schedule", trace), ("result", kind, out)]
    if kind == "deadlock":
        return W, [("c17.deadlock", out)]
    if kind == "raised":
        return W, [("c17.exception", repr(out))]
    if out not in allowed:
        return W, [("c17.not-linearizable", f"results {out[0]} not produced by any sequential order")]
    return W, []
