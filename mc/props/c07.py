"""C07 - open breaker fails fast; recovery admits exactly one probe."""

from __future__ import annotations

import itertools

from ..kernel import Chooser
from ..seqcheck import explore_task
from ..tracelib import split_calls
from . import c06

PID = "C07"

META = {
    "level": "model_checking",
    "engine": "E2 state + E3 coro + E1 seq",
    "rule": ("(a) explicit-state BFS over identity-aware histories start | settle(i, success | "
             "failure | cancel) | tick on the real CircuitBreaker with up to 2 (3 thorough) calls "
             "outstanding; (b) BFS over interleavings of 2-3 concurrently running AsyncPolicy "
             "call/execute coroutines (with and without retry, including the retry-less pre-flight "
             "abort) sharing one real breaker: start, resume task i with ok / failure, cancel task "
             "i, tick; (c) sequential call histories through Policy/AsyncPolicy with clock "
             "advances.  Every event is compared with an identity-aware reference automaton "
             "(observable answers, state property, and what a call starting now would be told); "
             "exploration is pruned at the first divergent step; distinct = canonical states"),
    "assumptions": ["boundary elapsed == recovery_timeout_s is a don't-care read consistently",
                    "known findings c07.stale-settle and c07.unadmitted-cancel (breaker API has "
                    "no call identity) are reported as KNOWN-FINDING and pruned at that step"],
    "min_outcomes": {"quick": 6},
}

KINDS = ["call", "execute", "call0", "execute0", "abort0"]


def bounds(tier):
    return {"identity_depth": 9 if tier == "quick" else 11, "outstanding": 2 if tier == "quick" else 3,
            "interleaving_depth": 7 if tier == "quick" else 9}


def tasks(tier):
    out = []
    d_id, mo = (9, 2) if tier == "quick" else (11, 3)
    for thr, W, R, ct in itertools.product([1, 2], [2, 4], [2, 3], [{}, {"T": 1}]):
        cfg = {"threshold": thr, "window": W, "recovery": R, "class_thresholds": ct, "trip_on": ["T"]}
        out.append({"family": "identity", "cfg": cfg, "entry": "CircuitBreaker", "bound": d_id,
                    "max_out": mo, "weight": 5})
    # a class with its own threshold of two or more (a failed probe re-opens whatever the counts)
    for thr, W, R, ct in [(3, 4, 2, {"T": 2}), (1, 4, 2, {"T": 2}), (3, 2, 3, {"T": 3})]:
        cfg = {"threshold": thr, "window": W, "recovery": R, "class_thresholds": ct, "trip_on": ["T"]}
        out.append({"family": "identity", "cfg": cfg, "entry": "CircuitBreaker", "bound": d_id,
                    "max_out": mo, "weight": 5})
    # an instant that is not a multiple of the tick nor of a millisecond, just before the timeout
    for thr, W, R in [(1, 4, 2), (2, 4, 3)]:
        cfg = {"threshold": thr, "window": W, "recovery": R, "class_thresholds": {}, "trip_on": ["T"],
               "frac_tick": True}
        out.append({"family": "identity", "cfg": cfg, "entry": "CircuitBreaker", "bound": d_id - 2,
                    "max_out": mo, "weight": 5})
    d_as = 7 if tier == "quick" else 9
    for thr, R, kinds in itertools.product([1, 2], [2, 3],
                                           [["call", "execute"], ["call0", "execute0", "abort0"],
                                            ["call", "execute0", "abort0"]]):
        cfg = {"threshold": thr, "window": 4, "recovery": R, "class_thresholds": {}, "trip_on": ["T"]}
        if "call" not in kinds:
            d_as_k = d_as + 2   # retry-less calls finish in one step: deeper histories are cheap
        else:
            d_as_k = d_as
        out.append({"family": "async-interleave", "cfg": cfg, "entry": "AsyncPolicy", "bound": d_as_k,
                    "max_out": 2 if tier == "quick" else 3, "kinds": kinds, "weight": 8})
        if "call" not in kinds:
            # retry-less policies classify with the built-in classifier (UNKNOWN for the stub's
            # exception): let UNKNOWN trip the breaker so that these histories reach open / half-open
            out.append({"family": "async-interleave", "cfg": dict(cfg, trip_on=["T", "U"]),
                        "entry": "AsyncPolicy", "bound": d_as_k, "max_out": 2, "kinds": kinds,
                        "weight": 8})
        if thr == 1 and R == 2:
            # the operation may also fail with an exception chained to a CircuitOpenError
            out.append({"family": "async-interleave", "cfg": dict(cfg, chained=True),
                        "entry": "AsyncPolicy", "bound": d_as_k - 1,
                        "max_out": 2, "kinds": kinds, "weight": 8})
    for t in c06.tasks(tier):
        if t["family"] == "policy-seq":
            out.append(dict(t, family="policy-seq"))
            if t["cfg"]["breaker"]["threshold"] == 1 and t["cfg"]["breaker"]["window"] == 4:
                # the same histories with a breaker subclass whose truth value is False
                cfg2 = dict(t["cfg"], breaker=dict(t["cfg"]["breaker"], falsy=True))
                out.append(dict(t, family="policy-seq", cfg=cfg2))
    for thr, W, R in itertools.product([1, 2], [4], [2, 3]):
        cfg = {"threshold": thr, "window": W, "recovery": R, "class_thresholds": {}, "trip_on": ["T"]}
        out.append({"family": "raw", "cfg": cfg, "entry": "CircuitBreaker",
                    "bound": 8 if tier == "quick" else 10, "weight": 4})
    return out


def run_seq(cfg, entry, ch, ncalls, ticks):
    w, v = c06.run_policy_seq(cfg, entry, ch, ncalls, ticks)
    for call in split_calls(w.trace):
        brk = [r for r in call.records if r[0] == "brk"]
        if not brk or brk[0][1] != "allow" or brk[0][3][0]:
            continue
        end = call.end
        if call.ops:
            v.append(("c07.invoked-when-rejected", f"call {call.k} rejected but operation invoked"))
        if len(brk) > 1:
            v.append(("c07.rejection-recorded", f"rejected call {call.k} made records {brk[1:]}"))
        if end is None:
            continue
        if end[1] == "raise":
            if end[2] != "CircuitOpenError":
                v.append(("c07.rejection-shape", f"rejected call raised {end[2]}"))
        elif end[1] == "outcome":
            if end[2] or end[5] != 0 or end[7] != "foreign:CircuitOpenError":
                v.append(("c07.rejection-shape", f"rejected execute returned {end[2:8]}"))
        else:
            v.append(("c07.rejection-shape", f"rejected call ended with {end[:3]}"))
    return w, v


def run_task(task, seed):
    fam = task["family"]
    if fam == "identity":
        from .. import statebfs
        return statebfs.bfs_identity(task["cfg"], task["bound"], task["max_out"], seed)
    if fam == "raw":
        from .. import statebfs
        return statebfs.bfs_raw(task["cfg"], task["bound"], ["T", "U"], seed)
    if fam == "async-interleave":
        from .. import coro
        return coro.bfs_async(task["cfg"], task["bound"], task["max_out"], task["kinds"], seed)
    n, tk = task["ncalls"], task["ticks"]
    return explore_task(task, seed, lambda cfg, e, ch: run_seq(cfg, e, ch, n, tk))


def replay(doc):
    fam = doc["family"]
    if fam == "raw":
        return c06.replay(doc)
    hist = tuple(tuple(e) for e in doc["choices"])
    if fam == "identity":
        from .. import statebfs
        w, _ = statebfs.replay_identity(doc["cfg"], hist)
        if not w.diverged:
            w.lookahead(hist[-1])
    elif fam == "async-interleave":
        from .. import coro
        w = coro.replay(doc["cfg"], hist)
        if not w.diverged:
            w.lookahead()
        w.close_all()
    else:
        x = doc["extra"]
        return run_seq(doc["cfg"], doc["entry"], Chooser(tuple(doc["choices"])), x["ncalls"],
                       x["ticks"])

    class W:
        trace = [("history", hist), ("diverged", w.diverged)]
    return W, ([w.diverged] if w.diverged else [])
