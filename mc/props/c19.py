"""C19 - built-in classifiers are total and follow the documented table and precedence."""

from __future__ import annotations

import http
import itertools
import math
import re

from ..seqcheck import new_result

PID = "C19"


def srepr(x, limit=300, _depth=0):
    """repr() that survives ints beyond the str-conversion limit, cycles and deep nesting."""
    if isinstance(x, int) and not isinstance(x, bool) and abs(x) >= 10 ** 30:
        return f"<int with {x.bit_length()} bits>"
    if _depth > 6:
        return "<...>"
    if isinstance(x, dict):
        return "{" + ", ".join(f"{k!r}: {srepr(v, limit, _depth + 1)}" for k, v in x.items()) + "}"
    if isinstance(x, (tuple, list)):
        body = ", ".join(srepr(v, limit, _depth + 1) for v in x)
        return ("(" + body + ")") if isinstance(x, tuple) else ("[" + body + "]")
    try:
        return repr(x)[:limit]
    except Exception as e:  # noqa: BLE001
        return f"<unrepresentable {type(x).__name__}: {type(e).__name__}>"

META = {
    "level": "exploration",
    "engine": "E5 domain",
    "rule": ("exception types (4 marker types, TimeoutError, 7 builtins, generated classes whose "
             "names hit / miss each heuristic substring in several case variants, a class deriving "
             "from two markers) x attribute values (absent, None, bools, every int in -1000..1000, "
             "2^64, 10^400, 10^5000, floats incl. NaN/inf, strings, bytes, containers, objects) in "
             "status / code / status_code / sqlstate / args: full int sweep on each attribute "
             "alone, full product of a 24-value core on attribute pairs (triples in thorough); "
             "optional-library classifiers with the import made to fail; distinct = distinct "
             "(classifier, type, attribute tuple); non-trivial = at least one attribute present or "
             "a non-builtin type"),
    "assumptions": ["reference table restated independently from the documentation; where the "
                    "documentation is silent the reference accepts every reading (DESIGN section 3)",
                    "attribute values outside the listed lattice are not covered"],
    "min_outcomes": {"quick": 8},
}

class _Code(int):
    """A plain int subclass (how several client libraries type their status codes)."""

    def __repr__(self):
        return f"_Code({int(self)})"


INT_SUBCLASSES = [http.HTTPStatus.UNAUTHORIZED, http.HTTPStatus.TOO_MANY_REQUESTS,
                  http.HTTPStatus.SERVICE_UNAVAILABLE, http.HTTPStatus.CONFLICT, http.HTTPStatus.OK,
                  _Code(403), _Code(408), _Code(404)]

CORE = INT_SUBCLASSES + ["absent", None, True, False, 0, 1, 200, 400, 401, 403, 404, 408, 409, 422, 429, 499, 500,
        503, 599, 600, -500, 2 ** 64, 10 ** 400, 429.0, math.nan, "429", "", b"429", (429,), [500],
        {}, "OBJ"]
CORE_SMALL = INT_SUBCLASSES[:6] + ["absent", None, True, 0, 200, 401, 404, 409, 429, 503, 600, 10 ** 400, 429.0,
              math.nan, "429", "", b"429", [500], {"a": 1}, {429}, bytearray(b"x"), "OBJ"]

MAP = {401: "AUTH", 403: "PERMISSION", 400: "PERMANENT", 404: "PERMANENT", 422: "PERMANENT",
       409: "CONCURRENCY", 408: "TRANSIENT", 429: "RATE_LIMIT"}
HTTP_MAP = {401: "AUTH", 403: "PERMISSION", 400: "PERMANENT", 404: "PERMANENT",
            409: "CONCURRENCY", 408: "TRANSIENT", 429: "RATE_LIMIT"}


def bounds(tier):
    return {"attributes_varied_together": 2 if tier == "quick" else 3, "int_sweep": [-1000, 1000]}


def tasks(tier):
    out = []
    for clf in ("default", "strict", "http", "sqlstate", "pyodbc", "optional"):
        for part in range(4):
            out.append({"family": "classify", "cfg": {"classifier": clf, "part": part, "parts": 4},
                        "entry": clf, "bound": 0, "weight": 2})
    return out


def is_int(v):
    return isinstance(v, int) and not isinstance(v, bool)


def doc_map(v, table):
    """Documented mapping of an integer status, or None."""
    if v in table:
        return table[v]
    if 500 <= v < 600:
        return "SERVER_ERROR"
    return None


NAME_HITS = [(("auth", "unauthoriz", "credential"), "AUTH"), (("forbid", "permission"), "PERMISSION"),
             (("timeout", "connection"), "TRANSIENT")]


def name_classes(tname):
    n = tname.lower()
    return {k for subs, k in NAME_HITS if any(s in n for s in subs)}


def ref_default(exc_type_info, attrs, strict):
    """Allowed answers of default_classifier / strict_classifier."""
    markers, is_timeout, tname = exc_type_info
    if markers or is_timeout:
        allowed = set(markers)
        if is_timeout:
            allowed.add("TRANSIENT")
        if is_timeout and not markers:
            # TimeoutError is not one of the documented marker types: a numeric code may win
            allowed |= numeric_default(attrs)[0]
        return allowed
    num, may_fall = numeric_default(attrs)
    fall = ({"UNKNOWN"} if strict else (name_classes(tname) or {"UNKNOWN"}))
    if num and not may_fall:
        return num
    return num | fall


def numeric_default(attrs):
    """(documented classes reachable through status/code, whether falling through to the name
    heuristics / UNKNOWN is also an accepted reading)."""
    st, co = attrs.get("status", "absent"), attrs.get("code", "absent")

    def reading(v):
        if is_int(v):
            return doc_map(v, MAP)
        if isinstance(v, float) and v == v and abs(v) != math.inf and v == int(v):
            return doc_map(int(v), MAP)  # "429.0": the statement speaks of integer statuses
        return None

    classes = set()
    fall = False
    st_ignored = isinstance(st, str) and st == "absent" or st is None or not _truthy(st)
    if not st_ignored:
        if is_int(st) and doc_map(st, MAP):
            classes.add(doc_map(st, MAP))
        else:
            fall = True  # a truthy status that is not a documented integer masks `code`
            if reading(st):
                classes.add(reading(st))
        if is_int(co) and doc_map(co, MAP):
            classes.add(doc_map(co, MAP))  # precedence between the two attributes: either
    else:
        if is_int(co) and doc_map(co, MAP):
            classes.add(doc_map(co, MAP))
        else:
            fall = True
            if reading(co):
                classes.add(reading(co))
    return classes, fall or not classes


def _truthy(v):
    try:
        return bool(v)
    except Exception:  # noqa: BLE001
        return True


def ref_http(exc_type_info, attrs):
    ints = [attrs.get(a, "absent") for a in ("status", "status_code", "code")]
    ints = [v for v in ints if isinstance(v, int)]
    bools = [v for v in ints if isinstance(v, bool)]
    real = [v for v in ints if not isinstance(v, bool)]
    args = attrs.get("args", ())
    allowed = set()
    for v in real:
        allowed.add(doc_map(v, HTTP_MAP) or "UNKNOWN")
        if v == 422:
            allowed.add("PERMANENT")
    markers, is_timeout, _ = exc_type_info
    if markers or is_timeout:
        # marker type and numeric status together: either (DESIGN section 3)
        allowed |= set(markers) | ({"TRANSIENT"} if is_timeout else set())
    if bools:
        allowed |= {"UNKNOWN"} | ref_default(exc_type_info, attrs, False)
    if real:
        return allowed
    arg_ints = [a for a in (args if isinstance(args, tuple) else ()) if isinstance(a, int)
                and 100 <= a <= 599]
    for v in arg_ints:
        if isinstance(v, bool):
            continue
        allowed.add(doc_map(v, HTTP_MAP) or "UNKNOWN")
        if v == 422:
            allowed.add("PERMANENT")
    if arg_ints and not bools:
        return allowed
    return allowed | ref_default(exc_type_info, attrs, False)


SQL_RE = re.compile(r"[0-9A-Z]{5}")
# a candidate set off by white space, brackets or punctuation (nobody could read it differently)
PYODBC_TOKEN_RE = re.compile(r"(?<=\[)[0-9A-Z]{5}(?=\])")
SQL_TOKEN_RE = re.compile(r"(?:^|(?<=[\s\[\(:]))[0-9A-Z]{5}(?=$|[\s\]\):,.])")


def sql_map(code):
    if code in ("40001", "40P01"):
        return "CONCURRENCY"
    if code in ("HYT00", "HYT01", "08S01") or code.startswith("08"):
        return "TRANSIENT"
    if code.startswith("28"):
        return "AUTH"
    if code in ("42000", "42P01"):
        return "PERMANENT"
    return "UNKNOWN"


ALL = {"AUTH", "PERMISSION", "PERMANENT", "CONCURRENCY", "RATE_LIMIT", "SERVER_ERROR", "TRANSIENT",
       "UNKNOWN"}


def ref_sql(exc_type_info, attrs, pyodbc):
    s = attrs.get("sqlstate", "absent")
    args = attrs.get("args", ())
    markers, is_timeout, _ = exc_type_info
    extra = set(markers) | ({"TRANSIENT"} if is_timeout else set())  # marker vs code: either
    if isinstance(s, str) and s == "absent":
        s = None
    if isinstance(s, str) and s:
        return {sql_map(s)} | extra
    if s is not None and _truthy(s):
        return set(ALL)  # non-string SQLSTATE values: unspecified, any class, but no exception
    found = set()
    clear = set()
    for a in (args if isinstance(args, tuple) else ()):
        if isinstance(a, str):
            for m in SQL_RE.findall(a):
                found.add(sql_map(m))
            # pyodbc messages carry the code in brackets ("[40001] [Microsoft]..."): only that
            # shape is unambiguous for pyodbc_classifier
            for m in (PYODBC_TOKEN_RE if pyodbc else SQL_TOKEN_RE).findall(a):
                clear.add(sql_map(m))
    if clear and "UNKNOWN" not in clear:
        # every clearly delimited candidate is a documented code: whichever is taken, the answer
        # is the documented class of one of them ("none" is no longer a reading)
        return clear | extra
    if found:
        # which token of which argument is taken is not documented: any of them, or none
        return found | extra | ({"UNKNOWN"} if pyodbc else ref_default(exc_type_info, attrs, False))
    if pyodbc:
        return {"UNKNOWN"}
    return ref_default(exc_type_info, attrs, False)


def make_types():
    from redress.errors import ConcurrencyError, PermanentError, RateLimitError, ServerError
    T = []

    def add(cls, markers=(), is_timeout=False):
        T.append((cls, (tuple(markers), is_timeout, cls.__name__)))

    add(PermanentError, ["PERMANENT"])
    add(RateLimitError, ["RATE_LIMIT"])
    add(ConcurrencyError, ["CONCURRENCY"])
    add(ServerError, ["SERVER_ERROR"])
    add(type("BothMarkers", (RateLimitError, ServerError), {}), ["RATE_LIMIT", "SERVER_ERROR"])
    add(type("AuthPermanentSub", (PermanentError,), {}), ["PERMANENT"])
    add(TimeoutError, [], True)
    add(type("SlowTimeoutSub", (TimeoutError,), {}), [], True)
    for b in (ValueError, KeyError, OSError, ConnectionError, PermissionError, Exception,
              ArithmeticError):
        add(b)
    for name in ("Plain", "AuthFailed", "UNAUTHORIZED", "BadCredentialx", "Forbidden", "PERMISSIONx",
                 "ReadTimeout", "connectionLost", "AuthTimeout", "forbidConnection", "Authority",
                 "Timeou", "Xx"):
        add(type(name, (Exception,), {}))
    # exception objects that derive from BaseException only (signal-like application types)
    add(type("BaseSignal", (BaseException,), {}))
    add(type("AuthBaseFailure", (BaseException,), {}))
    # the *type name* carries no keyword; the module path / enclosing class does
    for mod, qual in (("acme.connection_pool", "Oddball"), ("acme.auth.transport", "Oddball"),
                      ("plain", "AuthClient.Oddball"), ("acme.permission", "Forbidder.Xx")):
        add(type("Oddball" if qual.endswith("Oddball") else "Xx", (Exception,),
                 {"__module__": mod, "__qualname__": qual}))
    return T


def build(cls, attrs):
    args = attrs.get("args", ())
    try:
        exc = cls(*args) if isinstance(args, tuple) else cls()
    except Exception:  # noqa: BLE001
        exc = cls()
    if not isinstance(args, tuple):
        try:
            exc.args = args
        except Exception:  # noqa: BLE001
            pass
    for k, v in attrs.items():
        if k == "args" or v == "absent" and isinstance(v, str):
            continue
        setattr(exc, k, object() if isinstance(v, str) and v == "OBJ" else v)
    return exc


def value_sets(tier):
    ints = list(range(-1000, 1001))
    core = CORE if tier == "thorough" else CORE_SMALL
    return ints, core


ARG_SHAPES = [(), (503,), (True,), ("503",), (99,), (600,), (None, 404), (429, 500), ("x", 401),
              (b"503",), ([503],), (5.5,), (math.nan,), ({},), ((404,),), (10 ** 400,), (object,),
              (complex(1, 1),), (-503,), (503.0,)]
SQL_VALUES = ["absent", None, "", "40001", "40P01", "HYT00", "HYT01", "08S01", "08006", "28000",
              "28P01", "42000", "42P01", "4000", "400010", "99999", "0800", "XX000", 40001, 8,
              10 ** 5000, math.nan, b"40001", ["40001"], "OBJ", True, 0]
_CYCLE = []
_CYCLE.append(_CYCLE)             # a list that contains itself
_RING = [("x",)]
_RING.append((_RING,))            # tuple / list cycle
_DEEP = "leaf"
for _ in range(6000):             # nesting deeper than the recursion limit
    _DEEP = [_DEEP]
SQL_ARGS = [("could not serialize access due to concurrent update 40001",),
            ("deadlock detected while locking tuple 40P01",), ("Login failed for user 'sa' 28000",),
            ("lost connection to the server 08S01", "extra"), ("syntax error at or near from: 42000",),
            (_CYCLE,), ("msg", _RING), (_DEEP,), (), ("[40001] x",), ("40001",), ("x 40001 y",), (40001,), (None,), ("A" * 10000,),
            ("[HYT00] [08S01]",), ("08S01", "[42000]"), ("no code",), ("[4000]",),
            ("ERROR 28000: denied",), (b"[28000] Connexion refus\xe9e",), (b"\xff\xfe",),
            (bytearray(b"[40001] x"),), (b"[40001] ok",), ("\ud800",)]


def cases(clf, tier):
    """Yield attribute dicts for one classifier."""
    ints, core = value_sets(tier)
    if clf == "optional":
        # the library is absent: must equal default_classifier also where http-style and default
        # tables disagree (status_code, args, 422, markers with a status)
        for v in [401, 404, 422, 429, 503, 509, 200, True, "429"]:
            yield {"status_code": v}
            yield {"args": (v,)}
            yield {"status": 0, "code": v}
        for sh in ARG_SHAPES:
            yield {"args": sh}
    if clf in ("default", "strict", "optional"):
        for v in INT_SUBCLASSES:
            yield {"status": v}
            yield {"code": v}
        for v in ints + [2 ** 64, 10 ** 400, 10 ** 5000]:
            yield {"status": v}
            yield {"code": v}
        for a, b in itertools.product(core, core):
            yield {"status": a, "code": b}
    elif clf == "http":
        for v in INT_SUBCLASSES + ints + [2 ** 64, 10 ** 400]:
            for attr in ("status", "status_code", "code"):
                yield {attr: v}
            yield {"args": (v,)}
        for a, b in itertools.product(core, core):
            yield {"status": a, "status_code": b}
            yield {"status_code": a, "code": b}
        if tier == "thorough":
            small = CORE_SMALL
            for a, b, c in itertools.product(small, small, small):
                yield {"status": a, "status_code": b, "code": c}
        for sh, a in itertools.product(ARG_SHAPES, ["absent", None, 404, "x", True]):
            yield {"args": sh, "status": a}
        for sh in ARG_SHAPES:
            yield {"args": sh}
    else:
        for s, a in itertools.product(SQL_VALUES, SQL_ARGS):
            yield {"sqlstate": s, "args": a}
        for s, c in itertools.product(SQL_VALUES, [401, 503, "absent"]):
            yield {"sqlstate": s, "status": c}


def run_task(task, seed):
    from .. import env as E
    E.install()
    import redress.extras.aiohttp as x_aiohttp
    import redress.extras.boto3 as x_boto3
    import redress.extras.grpc as x_grpc
    import redress.extras.redis as x_redis
    import redress.extras.urllib3 as x_urllib3
    from redress import default_classifier, strict_classifier
    from redress.errors import ErrorClass
    from redress.extras import (aiohttp_classifier, boto3_classifier, grpc_classifier,
                                http_classifier, pyodbc_classifier, redis_classifier,
                                sqlstate_classifier, urllib3_classifier)
    res = new_result()
    clf = task["cfg"]["classifier"]
    part, parts = task["cfg"]["part"], task["cfg"]["parts"]
    tier = task.get("tier", "quick")
    types = make_types()
    fns = {"default": [("default_classifier", default_classifier)],
           "strict": [("strict_classifier", strict_classifier)],
           "http": [("http_classifier", http_classifier)],
           "sqlstate": [("sqlstate_classifier", sqlstate_classifier)],
           "pyodbc": [("pyodbc_classifier", pyodbc_classifier)],
           "optional": [("aiohttp_classifier", aiohttp_classifier),
                        ("boto3_classifier", boto3_classifier), ("grpc_classifier", grpc_classifier),
                        ("redis_classifier", redis_classifier),
                        ("urllib3_classifier", urllib3_classifier)]}[clf]
    if clf == "optional":
        class NoImport:
            @staticmethod
            def import_module(name, package=None):
                raise ImportError(f"verif: {name} made unavailable")
        for mod in (x_aiohttp, x_boto3, x_grpc, x_redis, x_urllib3):
            mod.importlib = NoImport
    neutral = type("Neutral", (Exception,), {})
    n = 0
    for attrs in cases(clf, tier):
        n += 1
        if n % parts != part:
            continue
        sel = types if len(attrs) <= 1 or n % 5 == 0 else types[(n // parts) % len(types)::7] or types[:1]
        for cls, info in sel:
            exc = build(cls, attrs)
            for fname, fn in fns:
                res["execs"] += 1
                case = (fname, info[2], srepr(attrs))
                if any(v != "absent" for v in attrs.values()) or info[0] or info[1]:
                    res["nontrivial"].add(hash(case))
                try:
                    got = fn(exc)
                except Exception as e:  # noqa: BLE001
                    res["outcomes"].add((fname, "raised"))
                    _viol(res, "c19.raises", f"{fname}({info[2]} with {srepr(attrs)}) raised "
                                             f"{type(e).__name__}: {str(e)[:200]}", task, case)
                    continue
                if not isinstance(got, ErrorClass):
                    _viol(res, "c19.not-errorclass", f"{case} -> {got!r}", task, case)
                    continue
                g = got.name
                res["outcomes"].add((fname, g))
                if clf == "default":
                    allowed = ref_default(info, attrs, False)
                elif clf == "strict":
                    allowed = ref_default(info, attrs, True)
                elif clf == "http":
                    allowed = ref_http(info, attrs)
                elif clf in ("sqlstate", "pyodbc"):
                    allowed = ref_sql(info, attrs, clf == "pyodbc")
                else:
                    try:
                        allowed = {default_classifier(exc).name}
                    except Exception:  # noqa: BLE001
                        allowed = set(ALL)
                if g not in allowed:
                    key = "c19.library-absent" if clf == "optional" else "c19.table"
                    _viol(res, key, f"{fname}({info[2]} with {srepr(attrs)}) -> {g}; the "
                                    f"documented table allows {sorted(allowed)}", task, case)
                if clf in ("strict", "default", "http", "sqlstate"):
                    # classifiers are functions of the exception object: the answer must not
                    # depend on which classifier saw this exception (type) before
                    try:
                        other = default_classifier if clf != "default" else strict_classifier
                        other(exc)
                        g3 = fn(exc).name
                    except Exception as e:  # noqa: BLE001
                        g3 = f"raised {type(e).__name__}"
                    if g3 != g:
                        _viol(res, "c19.history-dependent",
                              f"{fname}({info[2]} with {srepr(attrs)}) answered {g}, then {g3} "
                              f"after another classifier had seen the same exception", task, case)
                if clf == "strict" and not info[0] and not info[1]:
                    # renaming the class must not change the answer
                    try:
                        g2 = strict_classifier(build(neutral, attrs)).name
                    except Exception:  # noqa: BLE001
                        g2 = "raised"
                    if g2 != g and cls.__mro__[1] is Exception:
                        _viol(res, "c19.strict-name", f"strict_classifier answers {g} for class "
                                                      f"{info[2]} but {g2} for a neutrally named "
                                                      f"class with {srepr(attrs)}", task, case)
    res["samples"].append({"classifier": clf, "case": srepr(attrs), "type": info[2]})
    return res


def _viol(res, key, msg, task, case):
    res["nviol"] += 1
    res["viol_keys"][key] = res["viol_keys"].get(key, 0) + 1
    if not any(v["key"] == key for v in res["violations"]):
        res["violations"].append({"key": key, "msg": msg, "family": "classify", "cfg": task["cfg"],
                                  "entry": task["entry"], "choices": list(case),
                                  "labels": list(case), "trace": [], "extra": {}})


def replay(doc):
    class W:
        trace = [("case", doc["choices"])]
    r = run_task({"family": "classify", "cfg": doc["cfg"], "entry": doc["entry"], "tier": "thorough"}, 0)
    hits = [v for v in r["violations"] if v["key"] == doc["key"]]
    return W, [(v["key"], v["msg"]) for v in hits]
