"""C01 - attempt caps (global, per-class, UNKNOWN, non-retryable) are never exceeded."""

from __future__ import annotations

import itertools

from ..kernel import Chooser
from ..lazy import seq
from ..seqcheck import Divergence, DiffChooser, explore_task
from ..tracelib import NONRETRY, first_diff, normalize, split_calls

PID = "C01"
Q4 = ["Retry.call", "Retry.execute", "AsyncRetry.call", "AsyncRetry.execute"]
ALL17 = ["ok"] + [f"{c}:{k}" for c in "xr" for k in "TRSCUPAF"]
REDUCED = ["ok", "x:T", "x:U", "r:T", "r:U", "x:P"]

META = {
    "level": "model_checking",
    "engine": "E1 seq",
    "rule": ("every (configuration, entry point) cell is explored exhaustively: all outcome "
             "sequences of the operation stub (free choice per invocation) up to max_attempts, "
             "other dimensions as bounded deviations; distinct = distinct (end kind, stop reason, "
             "attempts, failure-label sequence); non-trivial = at least one failed attempt or one "
             "non-default environment answer"),
    "assumptions": [
        "attempt_timeout_s=None (real threads / event loop not owned by the harness)",
        "valid configurations only (max_attempts>=1, limits>=0, deadline>0)",
        "classifier and result classifier are deterministic functions of the outcome object",
        "virtual monotonic clock; all times are multiples of 0.125 s",
    ],
    "min_outcomes": {"quick": 8, "thorough": 8},
}

PER_CLASS = [{}, {"T": 0}, {"T": 1}, {"T": 2}, {"U": 1}, {"U": 2}, {"P": 2}]
UNKNOWN = [None, 0, 1, 2]
STRATS = [
    {"default": "ctx", "per": {}},
    {"default": "legacy", "per": {"T": "ctx", "R": "legacy"}},
    {"default": None, "per": {"T": "ctx", "U": "ctx", "R": "legacy"}},
]


def bounds(tier):
    return {"max_attempts": [1, 2, 3] + ([4] if tier == "thorough" else []),
            "alphabet": "17 outcomes (ok, x:K, r:K for 8 classes)", "calls_per_object": 2,
            "deviation_bound_timing_family": 2 if tier == "quick" else 3}


def tasks(tier):
    out = []
    ms = [1, 2, 3]
    for M, pc, mu, st in itertools.product(ms, PER_CLASS, UNKNOWN,
                                           STRATS if tier == "thorough" else STRATS[1:]):
        cfg = dict(M=M, per_class=pc, max_unknown=mu, strat=st, alphabet=ALL17)
        for e in Q4:
            out.append({"family": "caps", "cfg": cfg, "entry": e, "bound": 0})
    if tier == "thorough":
        for pc, mu, st in itertools.product(PER_CLASS, UNKNOWN, STRATS):
            cfg = dict(M=4, per_class=pc, max_unknown=mu, strat=st, alphabet=REDUCED)
            for e in Q4:
                out.append({"family": "caps4", "cfg": cfg, "entry": e, "bound": 0})
    # timing / budget / deadline as deviations
    b = 2 if tier == "quick" else 3
    for pc, mu, bud in itertools.product([{}, {"T": 1}, {"U": 1}], [None, 1],
                                         [None, {"max": 1, "window": 8}]):
        cfg = dict(M=3, per_class=pc, max_unknown=mu, alphabet=REDUCED, deadline=4,
                   durs=[0, 1, 3], strat_menu=[1, 0, 9], overshoot=[0, 2], budget=bud,
                   abort=True, handler="call")
        for e in Q4:
            for first in REDUCED:
                out.append({"family": "caps-timing", "cfg": dict(cfg, script_prefix=[first]),
                            "entry": e, "bound": b, "weight": 5})
    # the caps reach the loop through every sugar layer (decorator, wrappers, from_config, contexts)
    SUGAR = ["deco", "adeco", "RetryPolicy.call", "AsyncRetryPolicy.execute", "RetryCfg.call",
             "AsyncRetryCfg.call", "RetryPolicyCfg.execute", "AsyncRetryPolicyCfg.call",
             "Policy.context", "AsyncPolicy.context", "RetryPolicySet.call",
             "AsyncRetryPolicySet.execute"]
    for pc, mu, e in itertools.product([{}, {"T": 1}, {"U": 3}], [None, 0, 1, 3], SUGAR):
        cfg = dict(M=4, per_class=pc, max_unknown=mu, alphabet=REDUCED, sleeper="policy")
        out.append({"family": "caps-sugar", "cfg": cfg, "entry": e, "bound": 0})
    # attempt_timeout_s: an attempt cut short counts as a (TRANSIENT) failure like any other
    for pc, mu, at, tc in itertools.product([{}, {"T": 1}, {"S": 1}], [None, 1], [1, 2],
                                            ["T", "P", "U", "S"]):
        for e in Q4:
            cfg = dict(M=3, per_class=pc, max_unknown=mu,
                       alphabet=["ok", "x:T", "x:U", "r:T", "xR:T", "xR:P"],
                       attempt_timeout=at, timeout_class=tc, durs=[0, 3], dur_free=True,
                       loop=e.startswith("Async"), sleeper_async=e.startswith("Async"))
            out.append({"family": "caps-attempt-timeout", "cfg": cfg, "entry": e, "bound": 0})
    # classifiers answering with Classification objects that carry a hint (not bare classes), and
    # strategy tables that have entries for non-retryable classes
    for mu, st, e in itertools.product([None, 1], [{"default": "ctx", "per": {}},
                                                   {"default": "ctx", "per": {"P": "ctx", "A": "legacy", "U": "ctx"}}],
                                       Q4 + ["RetryPolicyCfg.call", "AsyncRetryPolicy.execute"]):
        cfg = dict(M=4, per_class={}, max_unknown=mu, strat=st, ra_ticks=1,
                   alphabet=["ok", "x:T", "x:P+ra", "x:U+ra", "r:U+ra", "r:A+ra", "x:A", "x:P"])
        out.append({"family": "caps-classification-objects", "cfg": cfg, "entry": e, "bound": 0,
                    "weight": 3})
    # `raise X from Y`: the cap that counts is the one for the class the classifier gives X
    for pc, mu, e in itertools.product([{}, {"U": 1}], [0, 1], Q4 + ["Policy.call", "AsyncPolicy.execute"]):
        cfg = dict(M=4, per_class=pc, max_unknown=mu, alphabet=["ok", "xq:U", "x:T", "xq:P"])
        out.append({"family": "caps-chained-cause", "cfg": cfg, "entry": e, "bound": 0})
    # a Budget with plenty of tokens is configured next to the class caps; an impure (one-shot)
    # result classifier
    for pc, mu, e in itertools.product([{"T": 1}, {"R": 2, "U": 1}, {}], [None, 1], Q4):
        cfg = dict(M=4, per_class=pc, max_unknown=mu, alphabet=["ok", "x:T", "x:R", "x:U", "r:T"],
                   budget={"max": 6, "window": 8})
        out.append({"family": "caps-with-budget", "cfg": cfg, "entry": e, "bound": 0})
    for pc, e in itertools.product([{}, {"R": 1}], Q4):
        cfg = dict(M=4, per_class=pc, max_unknown=None, alphabet=["ok", "r:P", "r:R", "r:T", "x:T"],
                   rc_mode="oneshot")
        out.append({"family": "caps-oneshot-classifier", "cfg": cfg, "entry": e, "bound": 0})
    # class caps next to Classification objects that carry a Retry-After hint (short and longer
    # than the deadline); a rejected value that is None, through execute() as well
    for pc, mu, dl, e in itertools.product([{"T": 1}, {"R": 0, "U": 1}, {"R": 1}], [None, 1], [None, 6],
                                           Q4 + ["Policy.call", "AsyncRetryPolicy.execute"]):
        cfg = dict(M=4, per_class=pc, max_unknown=mu, deadline=dl, ra_ticks=2 if dl is None else 9,
                   alphabet=["ok", "x:T+ra", "x:R+ra", "r:U+ra", "r:R+ra", "x:T"])
        out.append({"family": "caps-hinted-classes", "cfg": cfg, "entry": e, "bound": 0})
    for pc, mu, e in itertools.product([{}, {"T": 1}], [None, 1], Q4 + ["Policy.execute", "RetryPolicy.execute",
                                                                       "AsyncPolicy.execute"]):
        cfg = dict(M=4, per_class=pc, max_unknown=mu, force_rc=True,
                   alphabet=["ok", "rn:P", "rn:T", "rn:U", "rn:A", "x:T"])
        out.append({"family": "caps-none-result", "cfg": cfg, "entry": e, "bound": 0})
    # long runs: a cap of 8 or 9, and a cap of 1 whose class comes back after many other failures
    for pc, mu in [({"T": 8}, None), ({"T": 9, "U": 1}, None), ({}, 8), ({"U": 1, "T": 10}, 3)]:
        for e in Q4:
            cfg = dict(M=12, per_class=pc, max_unknown=mu, alphabet=["x:T", "x:U"])
            for first in (["x:T", "x:T"], ["x:T", "x:U"], ["x:U", "x:T"], ["x:U", "x:U"]):
                out.append({"family": "caps-long", "cfg": dict(cfg, script_prefix=first),
                            "entry": e, "bound": 0, "weight": 3})
    # the operation raises the very same exception object again, now classified differently
    for pc, mu in itertools.product([{}, {"T": 1}], [None, 1]):
        for e in Q4 + ["Policy.call", "AsyncPolicy.execute"]:
            cfg = dict(M=4, per_class=pc, max_unknown=mu,
                       alphabet=["ok", "x:T", "x:P@", "x:U@", "x:T@"])
            out.append({"family": "caps-same-object", "cfg": cfg, "entry": e, "bound": 0})
    # overlapping calls on one policy object: re-entrant (the operation of call A runs a whole
    # call B on the same policy) and two interleaved async calls
    for pc, mu, mode in itertools.product([{"T": 1}, {"T": 0, "U": 1}, {}], [None, 1],
                                          ["sync-nested", "async-interleave"]):
        cfg = dict(M=3, per_class=pc, max_unknown=mu, alphabet=["x:T", "ok", "x:U", "r:T"])
        out.append({"family": "overlap", "cfg": cfg, "entry": mode, "bound": 0,
                    "weight": 6 if mode == "async-interleave" else 2})
    # carry-over between consecutive calls on one policy object
    for pc, mu in itertools.product([{}, {"T": 1}, {"U": 1}, {"T": 0}], [None, 1, 2]):
        cfg = dict(M=3 if tier == "quick" else 4, per_class=pc, max_unknown=mu,
                   alphabet=REDUCED if tier == "thorough" else ["ok", "x:T", "x:U", "r:T"])
        for e in Q4:
            out.append({"family": "carry", "cfg": cfg, "entry": e, "bound": 0})
    return out


def monitor(w, cfg):
    """Specification monitor, from the statement of C01 and the observed trace only."""
    v = []
    for call in split_calls(w.trace):
        v.extend(check_caps(call.ops, cfg))
    return v


def check_caps(ops, cfg):
    v = []
    M = cfg["M"]
    pc = cfg["per_class"]
    mu = cfg["max_unknown"]
    if True:
        if len(ops) > M:
            v.append(("caps.global", f"operation invoked {len(ops)} times, max_attempts={M}"))
        retried = {}
        for i, op in enumerate(ops):
            followed = i + 1 < len(ops)
            if not followed:
                continue
            if op.kind == "ok":
                v.append(("caps.after-success", f"invocation after success {op}"))
            if op.failed:
                if op.klass == "?":
                    # a timed-out attempt whose TimeoutError was never shown to the classifier:
                    # judged with the class the classifier would have given
                    op.klass = cfg["timeout_class"]
                if op.klass in NONRETRY:
                    v.append(("caps.nonretryable",
                              f"operation invoked again after {op.label} (attempt {op.n})"))
                retried[op.klass] = retried.get(op.klass, 0) + 1
        for k, n in retried.items():
            if k in pc and n > pc[k]:
                v.append(("caps.per-class",
                          f"{n} retries after {k} failures, per_class_max_attempts[{k}]={pc[k]}"))
        if mu is not None and retried.get("U", 0) > mu:
            v.append(("caps.unknown",
                      f"{retried['U']} retries after UNKNOWN failures, max_unknown_attempts={mu}"))
    return v


def run_plain(cfg, entry, ch):
    full = seq.mkcfg(**cfg)
    w = seq.World(full, ch)
    w.call(entry)
    return w, monitor(w, full)


def run_carry(cfg, entry, ch):
    """Two consecutive calls on one policy object; the second must behave exactly like the
    same answer script on a fresh object (differential), and both obey the caps."""
    full = seq.mkcfg(**cfg)
    w = seq.World(full, ch)
    w.call(entry)
    split_pos = ch.pos
    split_idx = len(w.trace)
    w.call(entry)
    v = monitor(w, full)
    second = w.trace[split_idx:]
    sub = ch.log[split_pos:]
    ch2 = DiffChooser(tuple(e[2] for e in sub), tuple((e[0], e[1]) for e in sub))
    try:
        w2 = seq.World(full, ch2)
        w2.call(entry)
        if ch2.pos != len(sub):
            raise Divergence("fresh object asked fewer questions")
        a = normalize(second[1:], second[0][3])
        b = normalize(w2.trace[1:], w2.trace[0][3])
        d = first_diff(a, b)
        if d is not None:
            v.append(("caps.carry-over",
                      f"second call on a used policy differs from a fresh one at step {d[0]}: "
                      f"used={d[1]} fresh={d[2]}"))
    except Divergence as e:
        v.append(("caps.carry-over", f"second call on a used policy diverges: {e}"))
    w.extra_runs = 1
    return w, v


class _OvOp:
    """Minimal op record compatible with check_caps."""

    def __init__(self, n, label):
        from ..tracelib import Op
        o = Op(("op", n, label, 0.0, 0.0, None))
        self.__dict__.update({k: getattr(o, k) for k in Op.__slots__})
        self.failed = o.failed

    def __repr__(self):
        return f"op{self.n}:{self.label}"


def run_overlap(cfg, mode, ch):
    """Two logical calls A and B overlapping on ONE policy object; each must obey the caps on
    its own (no counter shared between calls)."""
    from redress.policy import AsyncRetry, Retry
    full = seq.mkcfg(**cfg)
    E = seq.E
    E.set_clock(E.Clock())
    alphabet = full["alphabet"]
    logs = {"A": [], "B": []}

    class Err(Exception):
        pass

    class Res:
        def __init__(self, k):
            self.k = k

    def classify(exc):
        return seq.KL[exc.k]

    def rclassify(res):
        return seq.KL[res.k] if isinstance(res, Res) else None

    kw = dict(classifier=classify, result_classifier=rclassify, strategy=lambda ctx: 0.0,
              max_attempts=full["M"], max_unknown_attempts=full["max_unknown"], deadline_s=1.0e6,
              per_class_max_attempts={seq.KL[k]: n for k, n in full["per_class"].items()})

    def outcome(who):
        lab = alphabet[ch.choose("op", len(alphabet), True)]
        logs[who].append(lab)
        return lab

    def finish(lab):
        if lab == "ok":
            return "value"
        if lab.startswith("r:"):
            return Res(lab[2:])
        e = Err(lab)
        e.k = lab[2:]
        raise e

    class W:
        pass
    w = W()
    w.trace = []
    if mode == "sync-nested":
        pol = Retry(sleeper=lambda s: None, **kw)
        nested = {"done": False}

        def op_b():
            return finish(outcome("B"))

        def op_a():
            lab = outcome("A")
            if not nested["done"] and ch.choose("nest", 2, True):
                nested["done"] = True
                try:
                    pol.call(op_b)
                except Exception:  # noqa: BLE001
                    pass
            return finish(lab)

        try:
            pol.call(op_a)
        except Exception:  # noqa: BLE001
            pass
    else:
        pol = AsyncRetry(sleeper=lambda s: None, **kw)

        def make(who):
            async def op():
                lab = outcome(who)
                await seq.Suspend("op")
                return finish(lab)
            return op

        coros = {"A": pol.call(make("A")), "B": pol.call(make("B"))}
        live = []
        for who in ("A", "B"):
            try:
                coros[who].send(None)
                live.append(who)
            except (StopIteration, Exception):  # noqa: BLE001
                pass
        while live:
            who = live[ch.choose("sched", len(live), True)] if len(live) > 1 else live[0]
            w.trace.append(("resume", who))
            try:
                coros[who].send(None)
            except (StopIteration, Exception):  # noqa: BLE001
                live.remove(who)
    v = []
    for who in ("A", "B"):
        ops = [_OvOp(i + 1, lab) for i, lab in enumerate(logs[who])]
        for key, msg in check_caps(ops, full):
            v.append((key.replace("caps.", "caps.overlap-"), f"call {who} overlapping with another "
                                                            f"call on the same policy: {msg}"))
    w.trace += [("call", 1, mode, 0.0), ("ops", "A", tuple(logs["A"])), ("ops", "B", tuple(logs["B"])),
                ("end", "ret", None)]
    return w, v


def overlap_sig(w):
    a = next(r for r in w.trace if r[0] == "ops" and r[1] == "A")[2]
    b = next(r for r in w.trace if r[0] == "ops" and r[1] == "B")[2]
    return (("overlap", len(a), len(b), None), a + ("|",) + b)


def run_task(task, seed):
    if task["family"] == "overlap":
        return explore_task(task, seed, run_overlap, sig=overlap_sig)
    runner = run_carry if task["family"] == "carry" else run_plain
    return explore_task(task, seed, runner)


def replay(doc):
    if doc["family"] == "overlap":
        return run_overlap(doc["cfg"], doc["entry"], Chooser(tuple(doc["choices"])))
    runner = run_carry if doc["family"] == "carry" else run_plain
    ch = Chooser(tuple(doc["choices"]))
    return runner(doc["cfg"], doc["entry"], ch)
