"""C01 - attempt caps (global, per-class, UNKNOWN, non-retryable) are never exceeded."""

from __future__ import annotations

import itertools

from ..kernel import Chooser
from ..lazy import seq
from ..seqcheck import Divergence, DiffChooser, explore_task
from ..tracelib import NONRETRY, first_diff, normalize, split_calls

PID = "C01"
Q4 = ["Retry.call", "Retry.execute", "AsyncRetry.call", "AsyncRetry.execute"]
ALL17 = ["ok"] + [f"{c}:{k}" for c in "xr" for k in "TRSCUPAF"]
REDUCED = ["ok", "x:T", "x:U", "r:T", "r:U", "x:P"]

META = {
    "level": "model_checking",
    "engine": "E1 seq",
    "rule": ("every (configuration, entry point) cell is explored exhaustively: all outcome "
             "sequences of the operation stub (free choice per invocation) up to max_attempts, "
             "other dimensions as bounded deviations; distinct = distinct (end kind, stop reason, "
             "attempts, failure-label sequence); non-trivial = at least one failed attempt or one "
             "non-default environment answer"),
    "assumptions": [
        "attempt_timeout_s=None (real threads / event loop not owned by the harness)",
        "valid configurations only (max_attempts>=1, limits>=0, deadline>0)",
        "classifier and result classifier are deterministic functions of the outcome object",
        "virtual monotonic clock; all times are multiples of 0.125 s",
    ],
    "min_outcomes": {"quick": 8, "thorough": 8},
}

PER_CLASS = [{}, {"T": 0}, {"T": 1}, {"T": 2}, {"U": 1}, {"U": 2}, {"P": 2}]
UNKNOWN = [None, 0, 1, 2]
STRATS = [
    {"default": "ctx", "per": {}},
    {"default": "legacy", "per": {"T": "ctx", "R": "legacy"}},
    {"default": None, "per": {"T": "ctx", "U": "ctx", "R": "legacy"}},
]


def bounds(tier):
    return {"max_attempts": [1, 2, 3] + ([4] if tier == "thorough" else []),
            "alphabet": "17 outcomes (ok, x:K, r:K for 8 classes)", "calls_per_object": 2,
            "deviation_bound_timing_family": 2 if tier == "quick" else 3}


def tasks(tier):
    out = []
    ms = [1, 2, 3]
    for M, pc, mu, st in itertools.product(ms, PER_CLASS, UNKNOWN, STRATS):
        cfg = dict(M=M, per_class=pc, max_unknown=mu, strat=st, alphabet=ALL17)
        for e in Q4:
            out.append({"family": "caps", "cfg": cfg, "entry": e, "bound": 0})
    if tier == "thorough":
        for pc, mu, st in itertools.product(PER_CLASS, UNKNOWN, STRATS):
            cfg = dict(M=4, per_class=pc, max_unknown=mu, strat=st, alphabet=REDUCED)
            for e in Q4:
                out.append({"family": "caps4", "cfg": cfg, "entry": e, "bound": 0})
    # timing / budget / deadline as deviations
    b = 2 if tier == "quick" else 3
    for pc, mu, bud in itertools.product([{}, {"T": 1}, {"U": 1}], [None, 1],
                                         [None, {"max": 1, "window": 8}]):
        cfg = dict(M=3, per_class=pc, max_unknown=mu, alphabet=REDUCED, deadline=4,
                   durs=[0, 1, 3], strat_menu=[1, 0, 9], overshoot=[0, 2], budget=bud,
                   abort=True, handler="call")
        for e in Q4:
            for first in REDUCED:
                out.append({"family": "caps-timing", "cfg": dict(cfg, script_prefix=[first]),
                            "entry": e, "bound": b, "weight": 5})
    # carry-over between consecutive calls on one policy object
    for pc, mu in itertools.product([{}, {"T": 1}, {"U": 1}, {"T": 0}], [None, 1, 2]):
        cfg = dict(M=3 if tier == "quick" else 4, per_class=pc, max_unknown=mu, alphabet=REDUCED)
        for e in Q4:
            out.append({"family": "carry", "cfg": cfg, "entry": e, "bound": 0})
    return out


def monitor(w, cfg):
    """Specification monitor, from the statement of C01 and the observed trace only."""
    v = []
    M = cfg["M"]
    pc = cfg["per_class"]
    mu = cfg["max_unknown"]
    for call in split_calls(w.trace):
        ops = call.ops
        if len(ops) > M:
            v.append(("caps.global", f"operation invoked {len(ops)} times, max_attempts={M}"))
        retried = {}
        for i, op in enumerate(ops):
            followed = i + 1 < len(ops)
            if not followed:
                continue
            if op.kind == "ok":
                v.append(("caps.after-success", f"invocation after success {op}"))
            if op.failed:
                if op.klass in NONRETRY:
                    v.append(("caps.nonretryable",
                              f"operation invoked again after {op.label} (attempt {op.n})"))
                retried[op.klass] = retried.get(op.klass, 0) + 1
        for k, n in retried.items():
            if k in pc and n > pc[k]:
                v.append(("caps.per-class",
                          f"{n} retries after {k} failures, per_class_max_attempts[{k}]={pc[k]}"))
        if mu is not None and retried.get("U", 0) > mu:
            v.append(("caps.unknown",
                      f"{retried['U']} retries after UNKNOWN failures, max_unknown_attempts={mu}"))
    return v


def run_plain(cfg, entry, ch):
    full = seq.mkcfg(**cfg)
    w = seq.World(full, ch)
    w.call(entry)
    return w, monitor(w, full)


def run_carry(cfg, entry, ch):
    """Two consecutive calls on one policy object; the second must behave exactly like the
    same answer script on a fresh object (differential), and both obey the caps."""
    full = seq.mkcfg(**cfg)
    w = seq.World(full, ch)
    w.call(entry)
    split_pos = ch.pos
    split_idx = len(w.trace)
    w.call(entry)
    v = monitor(w, full)
    second = w.trace[split_idx:]
    sub = ch.log[split_pos:]
    ch2 = DiffChooser(tuple(e[2] for e in sub), tuple((e[0], e[1]) for e in sub))
    try:
        w2 = seq.World(full, ch2)
        w2.call(entry)
        if ch2.pos != len(sub):
            raise Divergence("fresh object asked fewer questions")
        a = normalize(second[1:], second[0][3])
        b = normalize(w2.trace[1:], w2.trace[0][3])
        d = first_diff(a, b)
        if d is not None:
            v.append(("caps.carry-over",
                      f"second call on a used policy differs from a fresh one at step {d[0]}: "
                      f"used={d[1]} fresh={d[2]}"))
    except Divergence as e:
        v.append(("caps.carry-over", f"second call on a used policy diverges: {e}"))
    w.extra_runs = 1
    return w, v


def run_task(task, seed):
    runner = run_carry if task["family"] == "carry" else run_plain
    return explore_task(task, seed, runner)


def replay(doc):
    runner = run_carry if doc["family"] == "carry" else run_plain
    ch = Chooser(tuple(doc["choices"]))
    return runner(doc["cfg"], doc["entry"], ch)
