"""C08 - every admitted call settles the breaker; no half-open probe slot is leaked."""

from __future__ import annotations

import itertools

from ..kernel import Chooser
from ..lazy import seq
from ..seqcheck import explore_task, run_world
from ..tracelib import split_calls

PID = "C08"
WITH_RETRY = ["Policy.call", "Policy.execute", "AsyncPolicy.call", "AsyncPolicy.execute"]
NO_RETRY = ["Policy0.call", "Policy0.execute", "AsyncPolicy0.call", "AsyncPolicy0.execute"]
SUGAR = ["RetryPolicy.call", "AsyncRetryPolicy.execute", "Policy.context", "AsyncPolicy.context"]
ENDINGS = ["ok", "x:T", "r:T", "x:P", "abort", "kbd", "exit", "cancel", "genexit", "nested", "coe"]
ENDINGS0 = ["ok", "x:T", "x:P", "abort", "kbd", "exit", "cancel", "genexit", "nested", "coe"]
SITES = ["classifier", "rclassifier", "strategy", "sleeper", "handler", "astart", "aend",
         "abort_if", "metric", "log"]
BRK = {"closed": {"threshold": 2, "window": 8, "recovery": 2, "trip_on": ["T", "U", "P"]},
       # half-open with a free slot: the previous probe handed its slot back (cancel), so this
       # call is admitted as the probe without a circuit_half_open event
       "probe-again": {"threshold": 1, "window": 8, "recovery": 2, "trip_on": ["T", "U", "P"],
                       "pre": [("fail", "T"), ("tick", 2), ("allow",), ("cancel",)]},
       "probe": {"threshold": 1, "window": 8, "recovery": 2, "trip_on": ["T", "U", "P"],
                 "pre": [("fail", "T"), ("tick", 2)]},
       # class thresholds of 2 for the classes the probe can fail with; the breaker's clock has
       # another reference point than time.monotonic()
       "probe-class-thresholds": {"threshold": 2, "window": 8, "recovery": 2, "trip_on": ["T", "U", "P"],
                                  "class_thresholds": {"T": 2, "P": 2},
                                  "pre": [("fail", "T"), ("fail", "T"), ("tick", 2)]},
       "probe-epoch-clock": {"threshold": 1, "window": 8, "recovery": 2, "trip_on": ["T", "U", "P"],
                             "clock_offset": 1.0e6, "pre": [("fail", "T"), ("tick", 2)]}}

META = {
    "level": "fault_enumeration",
    "engine": "E1 seq + E3 coro (single task)",
    "rule": ("for each of 12 entry paths (Policy/AsyncPolicy x call/execute x with/without retry, "
             "plus RetryPolicy and context-manager sugar) and each initial breaker state in which "
             "the call is admitted (closed, half-open probe): every way the operation can end at "
             "every attempt (value, failure, AbortRetryError, KeyboardInterrupt, SystemExit, "
             "CancelledError, GeneratorExit, nested RetryExhaustedError / CircuitOpenError), every "
             "callback (classifier, result classifier, strategy, sleeper, sleep handler, "
             "on_attempt_start/end, abort_if) raising at each of its invocations, and for async "
             "CancelledError / KeyboardInterrupt / close() at every suspension point; distinct = "
             "(end kind, reason, attempts, failure sequence); non-trivial = some failure or fault"),
    "assumptions": ["attempt_timeout_s=None", "one fault per run (quick), two (thorough)",
                    "a call is 'over' when call()/execute() has returned, raised, or its "
                    "coroutine was closed"],
    "min_outcomes": {"quick": 10},
}


def bounds(tier):
    return {"faults_per_run": 1 if tier == "quick" else 2, "max_attempts": 2}


def tasks(tier):
    out = []
    nf = 1 if tier == "quick" else 2
    for init, e in itertools.product(BRK, WITH_RETRY + SUGAR):
        cfg = dict(M=2, alphabet=ENDINGS, breaker=BRK[init], max_unknown=None, abort=True,
                   handler="call", attempt_hooks="call" if not e.startswith(("RetryPolicy", "AsyncRetryPolicy")) else "call")
        out.append({"family": "endings", "cfg": cfg, "entry": e, "bound": nf, "weight": 3})
        fault_sets = [[(s, i, t)] for s in SITES for i in (0, 1, 2)
                      for t in ("RuntimeError", "AbortRetryError", "KeyboardInterrupt",
                                "CancelledError", "GeneratorExit")]
        if tier == "thorough":
            fault_sets += [[(s1, 0, "RuntimeError"), (s2, i, "ValueError")]
                           for s1 in SITES for s2 in SITES for i in (0, 1)]
            fault_sets += [[(s, i, t)] for s in SITES for i in (0, 1)
                           for t in ("CircuitOpenError", "RetryExhaustedError", "SystemExit",
                                     "StopIteration", "TimeoutError")]
        for fs in fault_sets:
            cfg2 = dict(cfg, alphabet=["ok", "x:T", "r:T", "x:P"], faults=fs)
            out.append({"family": "callback-faults", "cfg": cfg2, "entry": e, "bound": 0})
    for init, e in itertools.product(BRK, NO_RETRY):
        cfg = dict(M=1, alphabet=ENDINGS0, breaker=BRK[init], abort=True, attempt_hooks="call")
        out.append({"family": "endings-noretry", "cfg": cfg, "entry": e, "bound": nf})
        for s, i in itertools.product(["astart", "aend", "abort_if"], [0, 1]):
            for t in ["RuntimeError", "AbortRetryError", "KeyboardInterrupt", "CancelledError",
                      "GeneratorExit"]:
                cfg2 = dict(cfg, alphabet=["ok", "x:T", "x:P", "abort"], faults=[(s, i, t)])
                out.append({"family": "callback-faults-noretry", "cfg": cfg2, "entry": e, "bound": 0})
    # async: exception thrown into the coroutine / close() at each suspension point
    for init, e, bs in itertools.product(BRK, ["AsyncPolicy.call", "AsyncPolicy.execute",
                                               "AsyncPolicy0.call", "AsyncPolicy0.execute",
                                               "AsyncRetryPolicy.call", "AsyncPolicy.context"],
                                         [True, False]):
        cfg = dict(M=2 if tier == "quick" else 3, alphabet=["ok", "x:T", "r:T", "x:P"],
                   breaker=BRK[init], suspend=True, inject=["cancel", "kbd", "close", "exit"],
                   sleeper="call", sleeper_async=True, before_sleep="call", bs_async=bs,
                   max_unknown=None)
        out.append({"family": "await-points", "cfg": cfg, "entry": e, "bound": nf, "weight": 3})
        if bs:
            # a coroutine is not pinned to an OS thread: admission happens on one thread, the
            # rest of the call (including its cancellation) on another
            out.append({"family": "await-points-thread-hop", "cfg": dict(cfg, thread_hop=True),
                        "entry": e, "bound": nf, "weight": 3})
    # the final failure is classified with the application's own Enum, not an ErrorClass member
    for init, e in itertools.product(BRK, WITH_RETRY):
        cfg = dict(M=2, alphabet=["ok", "x:Z", "x:T", "r:Z"], breaker=BRK[init], max_unknown=None)
        out.append({"family": "endings-foreign-class", "cfg": cfg, "entry": e, "bound": 0})
    # a breaker subclass whose truth value is False
    for init, e in itertools.product(BRK, WITH_RETRY + NO_RETRY):
        cfg = dict(M=2 if e in WITH_RETRY else 1, alphabet=ENDINGS0 if e in NO_RETRY else ENDINGS,
                   breaker=dict(BRK[init], falsy=True), max_unknown=None)
        out.append({"family": "endings-falsy-breaker", "cfg": cfg, "entry": e, "bound": 1})
    # the task is cancelled before it starts (the coroutine is closed without ever running)
    for init, e in itertools.product(BRK, ["AsyncPolicy.call", "AsyncPolicy.execute", "AsyncPolicy0.call",
                                          "AsyncPolicy0.execute", "AsyncRetryPolicy.call", "AsyncPolicy.context"]):
        cfg = dict(M=2, alphabet=["ok", "x:T"], breaker=BRK[init], suspend=True, inject_start=True,
                   max_unknown=None)
        out.append({"family": "never-started", "cfg": cfg, "entry": e, "bound": 1})
    # a second call through the same Policy object overlaps the probe (re-entrancy from a hook)
    for site, e, script in itertools.product(["aend", "metric", "strategy"], WITH_RETRY[:2] + ["Policy.context"],
                                             [["ok"], ["x:T", "x:T"]]):
        cfg = dict(M=2, alphabet=ENDINGS, attempt_hooks="call", max_unknown=None,
                   nest={"site": site, "entry": e, "script": script}, breaker=BRK["probe"])
        out.append({"family": "endings-reentrant", "cfg": cfg, "entry": e, "bound": 1})
    for init, e in itertools.product(BRK, WITH_RETRY + NO_RETRY + ["PolicySet.call", "AsyncPolicySet.execute"]):
        cfg = dict(M=2, alphabet=ENDINGS0 if e.split(".")[0].endswith("0") else ENDINGS,
                   breaker=BRK[init], max_unknown=None, repoint=True)
        out.append({"family": "endings-repointed", "cfg": cfg, "entry": e, "bound": 1})
    # async on the virtual event loop: Task.cancel() between any two loop iterations, with and
    # without attempt_timeout_s (wait_for), plus the sync attempt timeout through the owned executor
    for init, e, at in itertools.product(BRK, ["AsyncPolicy.call", "AsyncPolicy.execute",
                                                "AsyncRetryPolicy.execute", "AsyncPolicy0.call",
                                                "AsyncPolicy0.execute"], [None, 2]):
        cfg = dict(M=2, alphabet=["ok", "x:T", "r:T", "x:P"], breaker=BRK[init], loop=True,
                   attempt_timeout=at, durs=[0, 3], dur_free=True, inject=["cancel"],
                   sleeper="call", sleeper_async=True, before_sleep="call", bs_async=True,
                   max_unknown=None)
        out.append({"family": "task-cancel", "cfg": cfg, "entry": e, "bound": nf, "weight": 3})
        if at is not None:
            # the operation needs a tick to clean up after wait_for cancelled it
            out.append({"family": "task-cancel", "cfg": dict(cfg, unwind_ticks=1), "entry": e,
                        "bound": nf, "weight": 3})
    for init, e in itertools.product(BRK, ["Policy.call", "Policy.execute"]):
        cfg = dict(M=2, alphabet=ENDINGS, breaker=BRK[init], attempt_timeout=2, durs=[0, 3],
                   dur_free=True, max_unknown=None)
        out.append({"family": "endings-attempt-timeout", "cfg": cfg, "entry": e, "bound": 0})
    # the sync attempt timeout on the library's real threads: the timed-out attempt of an admitted
    # call (a probe included) finishes late - during the backoff sleep, while the next attempt
    # runs, or after the call has ended (DESIGN 11.8)
    for init, e in itertools.product(BRK, ["Policy.call", "Policy.execute", "RetryPolicy.call"]):
        cfg = dict(M=2, alphabet=["ok", "x:T", "r:T"] if tier == "thorough" else ["ok", "x:T"],
                   breaker=BRK[init], attempt_timeout=2, durs=[0, 10], real_executor=True,
                   late_menu=["ok", "x:T"], max_unknown=None, handler="call", handler_menu=["SLEEP"],
                   sleeper="call")
        out.append({"family": "endings-late-attempt", "cfg": cfg, "entry": e, "bound": 1,
                    "selfcheck": 0})
    return out


def monitor(w, cfg, probe_allowed):
    v = []
    for call in split_calls(w.trace):
        brk = [r for r in call.records if r[0] == "brk"]
        allows = [r for r in brk if r[1] == "allow"]
        admitted = any(r[3][0] for r in allows)
        records = [r for r in brk if r[1] != "allow"]
        if admitted and not records:
            v.append(("c08.unsettled", f"admitted call ended ({call.end[1:3] if call.end else None}) "
                                       f"without any breaker record"))
    if not probe_allowed:
        v.append(("c08.probe-leaked", "after the call ended and recovery_timeout_s elapsed, the "
                                      "next allow() was rejected: a phantom probe is in flight"))
    return v


def run_fault(cfg, entry, ch):
    full = seq.mkcfg(**cfg)
    w, judge = run_world(full, entry, ch)
    if not judge:
        return w, []
    w.tick(full["breaker"]["recovery"])
    from redress.circuit import CircuitBreaker
    # an observer (health check, metrics exporter) looks at the state first: reading it must
    # not take the probe slot
    w.trace.append(("observe", w.breaker.state.value))
    d = CircuitBreaker.allow(w.breaker)
    w.trace.append(("probe", d.allowed, d.state.value))
    v = monitor(w, full, d.allowed)
    if d.allowed and not v:
        # one more recovery cycle: settle our own probe, trip the breaker again, wait, ask again -
        # a probe flag left over from the call under test would reject this second probe
        brk = w.breaker
        if d.state.value == "half_open":
            CircuitBreaker.record_success(brk)
        from redress.errors import ErrorClass
        for _ in range(full["breaker"]["threshold"]):
            CircuitBreaker.record_failure(brk, ErrorClass.TRANSIENT)
        w.tick(full["breaker"]["recovery"])
        d2 = CircuitBreaker.allow(brk)
        w.trace.append(("probe2", d2.allowed, d2.state.value))
        if not d2.allowed:
            v.append(("c08.probe-leaked", "one full trip/recovery cycle after the call ended the "
                                          "probe was rejected: the call left a probe flag behind"))
    # keep the end record last for the outcome signature
    w.trace.append(w.trace[[i for i, r in enumerate(w.trace) if r[0] == "end"][-1]])
    return w, v


def run_task(task, seed):
    return explore_task(task, seed, run_fault)


def replay(doc):
    return run_fault(doc["cfg"], doc["entry"], Chooser(tuple(doc["choices"])))
