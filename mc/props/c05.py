"""C05 - backoff delay = the failure class's strategy output, sanitised and capped."""

from __future__ import annotations

import itertools

from ..kernel import Chooser
from ..lazy import seq
from ..seqcheck import explore_task, nest_tasks
from ..spec import attempts, sanitise, strategy_for, strategy_style
from ..tracelib import split_calls

PID = "C05"
Q4 = ["Retry.call", "Retry.execute", "AsyncRetry.call", "AsyncRetry.execute"]

META = {
    "level": "model_checking",
    "engine": "E1 seq",
    "rule": ("strategy tables (default only / per-class + default / per-class only, context or "
             "legacy signature) x class sequences x every strategy answer at every call (free, "
             "including NaN, +/-inf, negative, beyond the remaining time) x deadline x attempt "
             "duration x with/without sleep handler and before_sleep; distinct = (end kind, "
             "reason, attempts, failure sequence)"),
    "assumptions": ["attempt_timeout_s=None", "tick lattice 0.125 s so the expected delay is "
                    "computed exactly (no tolerance)"],
    "min_outcomes": {"quick": 6},
}

TABLES = [
    {"default": "ctx", "per": {}},
    {"default": "legacy", "per": {"T": "ctx", "R": "legacy"}},
    {"default": None, "per": {"T": "legacy", "R": "ctx", "U": "ctx"}},
    {"default": "ctx", "per": {"R": "ctx"}},
    {"default": "ctx+opt", "per": {"T": "ctx+opt"}},
]


def bounds(tier):
    return {"max_attempts": 3 if tier == "quick" else 4,
            "answers": [1, 9, "nan"] if tier == "quick" else [1, 0, 2, 9, "nan", "inf", "-inf", -1]}


def tasks(tier):
    out = []
    if tier == "quick":
        menu, alpha, M = [1, 9, "nan"], ["ok", "x:T", "x:R+ra", "r:T", "x:U"], 3
    else:
        menu = [1, 0, 2, 9, "nan", "inf", "-inf", -1]
        alpha, M = ["ok", "x:T", "x:R", "x:R+ra", "r:T", "r:R+ra", "x:U"], 3
    for tb, dl, hd in itertools.product(TABLES, [None, 4],
                                        [None, "call", "policy"] if tier == "thorough" else [None, "call"]):
        cfg = dict(M=M, strat=tb, deadline=dl, alphabet=alpha, durs=[0, 1], dur_free=True,
                   strat_menu=menu, strat_free=True, handler=hd, handler_menu=["SLEEP", "DEFER"],
                   before_sleep="call" if hd != "policy" else "policy", max_unknown=None,
                   sleeper="call" if hd else None, bs_async=(hd == "policy"))
        for e in Q4:
            if cfg["bs_async"] and not e.startswith("Async"):
                cfg2 = dict(cfg, bs_async=False)
            else:
                cfg2 = cfg
            for first in alpha:
                out.append({"family": "delay", "cfg": dict(cfg2, script_prefix=[first]),
                            "entry": e, "bound": 1, "weight": 1 if first == "ok" else 4})
    if tier == "thorough":
        for tb in TABLES[:2]:
            cfg = dict(M=4, strat=tb, deadline=6, alphabet=["ok", "x:T", "x:R+ra", "r:T"],
                       durs=[0, 1], dur_free=True, strat_menu=[1, 9, "nan", -1], strat_free=True,
                       max_unknown=None)
            for e in Q4:
                for first in cfg["alphabet"]:
                    out.append({"family": "delay4", "cfg": dict(cfg, script_prefix=[first]),
                                "entry": e, "bound": 0, "weight": 6})
    out += nest_tasks(Q4, "delay-reentrant", ["ok", "x:T", "x:R+ra", "r:T"],
                      strat_menu=[1, 9, "nan"], strat_free=True, deadline=6,
                      strat={"default": "ctx", "per": {"T": "legacy"}})
    # the same exception object comes back with a different class / hint; objects configured by
    # attribute assignment after construction
    for tb, e in itertools.product(TABLES[1:3], Q4 + ["RetrySet.call", "AsyncRetrySet.execute",
                                                     "RetryPolicySet.execute"]):
        cfg = dict(M=4, strat=tb, deadline=6, alphabet=["ok", "x:T", "x:R@", "x:T@", "x:U@"],
                   durs=[0, 1], strat_menu=[1, 9], strat_free=True, max_unknown=None,
                   sleeper="policy" if "Set" in e else "call")
        out.append({"family": "delay-same-object", "cfg": cfg, "entry": e, "bound": 1, "weight": 3})
    # a raising before_sleep hook: the sleeper still gets the delay; class pattern X, Y, X
    for idx, e in itertools.product([0, 1, "always"], Q4):
        cfg = dict(M=4, strat=TABLES[0], alphabet=["ok", "x:T", "r:T"], strat_menu=[1, 3], strat_free=True,
                   max_unknown=None, deadline=40, before_sleep="call", sleeper="call",
                   faults=[("before_sleep", idx, "RuntimeError")])
        out.append({"family": "delay-hook-fault", "cfg": cfg, "entry": e, "bound": 0})
    for tb, e in itertools.product([TABLES[1], {"default": "ctx", "per": {"T": "ctx", "R": "legacy"}}], Q4):
        cfg = dict(M=4, strat=tb, alphabet=["ok", "x:T", "x:R", "x:S"], strat_menu=[1, 5, 9], strat_free=True,
                   max_unknown=None, deadline=60)
        out.append({"family": "delay-class-pattern", "cfg": cfg, "entry": e, "bound": 0})
    # strategy answers that are ints (seconds), not floats
    for tb, e in itertools.product(TABLES[:2], Q4):
        cfg = dict(M=3, strat=tb, alphabet=["ok", "x:T", "r:T"], strat_menu=["int:1", "int:2", 1, "int:0"],
                   strat_free=True, max_unknown=None, deadline=40, handler="call",
                   handler_menu=["SLEEP", "DEFER"], handler_free=True)
        out.append({"family": "delay-int-answers", "cfg": cfg, "entry": e, "bound": 0})
    # async sleepers / hooks that return awaitables without being coroutine functions
    for tb, aw, e in itertools.product(TABLES[:2], ["object", None], ["AsyncRetry.call", "AsyncRetry.execute",
                                                                     "AsyncPolicy.call", "AsyncRetryPolicy.execute"]):
        cfg = dict(M=3, strat=tb, alphabet=["ok", "x:T", "r:T"], strat_menu=[1, 9], strat_free=True,
                   max_unknown=None, deadline=6, sleeper="call", sleeper_async=True,
                   before_sleep="call", bs_async=True, awaitable=aw, suspend=True)
        out.append({"family": "delay-async-awaitables", "cfg": cfg, "entry": e, "bound": 0})
    # strategies that are falsy callable objects (an empty "delay schedule" that is callable)
    for tb, e in itertools.product([{"default": "ctx", "per": {"T": "ctx", "R": "ctx"}},
                                    {"default": None, "per": {"T": "ctx", "U": "ctx"}}], Q4):
        cfg = dict(M=3, strat=tb, alphabet=["ok", "x:T", "x:R+ra", "r:T", "x:U"], strat_falsy=True,
                   strat_menu=[1, 9], strat_free=True, max_unknown=None, deadline=6)
        out.append({"family": "delay-falsy-strategy", "cfg": cfg, "entry": e, "bound": 0})
    # per-call sleeper / before_sleep through the Policy layer
    for tb, e in itertools.product(TABLES[:2], ["Policy.execute", "RetryPolicy.execute", "Policy.call",
                                                "AsyncPolicy.execute", "AsyncRetryPolicy.call", "Policy.context"]):
        cfg = dict(M=3, strat=tb, alphabet=["ok", "x:T", "r:T"], strat_menu=[1, 9], strat_free=True,
                   max_unknown=None, deadline=6, sleeper="call", before_sleep="call", handler="call",
                   handler_menu=["SLEEP"])
        out.append({"family": "delay-policy-layer", "cfg": cfg, "entry": e, "bound": 0})
    # an attempt fails because its on_attempt_start hook raised: whatever the entry point makes of
    # that, the strategy consultations of one run carry the attempt numbers 1, 2, 3, ... in order
    for idx, e in itertools.product([0, 1, 2], Q4 + ["Policy.execute", "RetryPolicy.execute"]):
        cfg = dict(M=4, alphabet=["ok", "x:T", "r:T"], attempt_hooks="call", max_unknown=None,
                   faults=[("astart", idx, "RuntimeError")], strat_menu=[1])
        out.append({"family": "attempt-number-hook-fault", "cfg": cfg, "entry": e, "bound": 0})
    # an abort predicate is supplied (and may never fire) next to delays well above one second:
    # the sleeper is still called once, with the delay itself
    for tb, hd, e in itertools.product(TABLES[:2], [None, "call"], Q4 + ["Policy.call", "RetryPolicy.execute", "Retry.context"]):
        cfg = dict(M=3, strat=tb, alphabet=["ok", "x:T", "r:T"], strat_menu=[20, 9, 1], strat_free=True,
                   max_unknown=None, deadline=None, abort=True, handler=hd, handler_menu=["SLEEP"],
                   before_sleep="call", sleeper="call")
        out.append({"family": "delay-abort-predicate", "cfg": cfg, "entry": e, "bound": 1})
    # time passes inside the strategy object's record_failure(), i.e. before the strategy is asked:
    # remaining_s and the cap are those of the moment the strategy is consulted
    for tb, dl, e in itertools.product(TABLES[:2], [6, 9], Q4):
        cfg = dict(M=3, strat=tb, deadline=dl, alphabet=["ok", "x:T", "r:T"], strat_menu=[9, 1, 40],
                   strat_free=True, strat_obj=True, rec_durs=[0, 2, 3], max_unknown=None, sleeper="call")
        out.append({"family": "delay-slow-record", "cfg": cfg, "entry": e, "bound": 1})
    # execute() through a Policy whose breaker is opened by the very failure that is deferred:
    # next_sleep_s is still the computed delay
    for tb, e in itertools.product(TABLES[:2], ["Policy.execute", "AsyncPolicy.execute", "Policy.call",
                                                "RetryPolicy.execute"]):
        cfg = dict(M=3, strat=tb, alphabet=["ok", "x:T", "r:T"], strat_menu=[1, 3], strat_free=True,
                   max_unknown=None, handler="call", handler_menu=["DEFER", "SLEEP"], handler_free=True,
                   breaker={"threshold": 1, "window": 8, "recovery": 16, "trip_on": ["T", "U", "P"]})
        out.append({"family": "delay-deferred-trips-breaker", "cfg": cfg, "entry": e, "bound": 0})
    # time passes inside the sleep handler; an attempt timeout is configured
    for tb, at, e in itertools.product(TABLES[:2] + TABLES[4:], [None, 2], Q4):
        cfg = dict(M=3, strat=tb, deadline=6, alphabet=["ok", "x:T", "x:R+ra", "r:T"],
                   durs=[0, 1], dur_free=True, strat_menu=[1, 9, 3], strat_free=True,
                   handler="call", handler_menu=["SLEEP", "DEFER"], handler_free=True,
                   handler_durs=[0, 2], attempt_timeout=at, max_unknown=None,
                   loop=e.startswith("Async") and at is not None,
                   sleeper_async=e.startswith("Async") and at is not None)
        out.append({"family": "delay-slow-handler", "cfg": cfg, "entry": e, "bound": 1, "weight": 4})
    return out


def monitor_numbers(w, cfg):
    """Every failure is retried in this family (no per-class cap, no budget, no handler), so the
    k-th strategy consultation of a call follows the k-th attempt."""
    v = []
    for call in split_calls(w.trace):
        nums = [r[3] for r in call.records if r[0] == "strategy"]
        if nums != list(range(1, len(nums) + 1)):
            v.append(("c05.attempt-number", f"strategy consulted with attempt numbers {nums}"))
    return v


def monitor(w, cfg):
    if any(f[0] == "astart" for f in cfg["faults"] or ()):
        return monitor_numbers(w, cfg)
    v = []
    ra_s = cfg["ra_ticks"] * 0.125
    for call in split_calls(w.trace):
        prev = None
        for a in attempts(cfg, call):
            op = a.op
            if len(a.strategy) > 1:
                v.append(("c05.strategy-twice",
                          f"strategy called {len(a.strategy)} times for attempt {a.i}"))
            if not op.failed:
                if a.strategy:
                    v.append(("c05.strategy-on-success", f"strategy called after {op.label}"))
                continue
            if not a.retries:
                continue
            if len(a.retries) != 1:
                v.append(("c05.retry-events", f"{len(a.retries)} retry events for attempt {a.i}"))
            if len(a.strategy) != 1:
                v.append(("c05.strategy-count",
                          f"granted retry after attempt {a.i} with {len(a.strategy)} strategy calls"))
                continue
            s = a.strategy[0]
            if s[3] == "NOT-A-CONTEXT":
                v.append(("c05.not-a-context",
                          f"context-style strategy {s[1]!r} was called with {s[4]} instead of a "
                          f"BackoffContext"))
                continue
            want_stub = strategy_for(cfg, op.klass)
            if s[1] != want_stub:
                v.append(("c05.wrong-strategy",
                          f"class {op.klass}: strategy stub {s[1]!r} used, expected {want_stub!r}"))
                continue
            style = strategy_style(cfg, want_stub)
            remaining = a.remaining
            recs = [r for r in a.seg if r[0] == "strategy_rec" and r[2] == "failure" and len(r) > 4
                    and a.seg.index(r) < a.seg.index(s)]
            if recs and cfg["deadline"] is not None:
                # time that passed inside the strategy object's record_failure(): the strategy is
                # consulted (and the delay capped) with what remains *then*
                remaining = a.remaining - (recs[-1][4] - op.t1)
            if s[3] != a.i:
                v.append(("c05.ctx-attempt", f"strategy saw attempt={s[3]}, true attempt {a.i}"))
            if s[4] != op.klass:
                v.append(("c05.ctx-class", f"strategy saw class {s[4]}, failure class {op.klass}"))
            if s[6] != prev:
                v.append(("c05.ctx-prev",
                          f"strategy saw prev_sleep_s={s[6]}, previously applied delay {prev}"))
            if style == "ctx":
                want_ra = ra_s if op.ra else None
                if s[5] != want_ra:
                    v.append(("c05.ctx-retry-after",
                              f"strategy saw retry_after_s={s[5]}, classifier said {want_ra}"))
                if s[7] != remaining:
                    v.append(("c05.ctx-remaining",
                              f"strategy saw remaining_s={s[7]}, true remaining {remaining}"))
                want_cause = "exception" if op.kind == "x" else "result"
                if s[8] != want_cause:
                    v.append(("c05.ctx-cause", f"strategy saw cause={s[8]}, expected {want_cause}"))
                if op.ra:
                    cls = [c for c in a.classify if c[4] is not None]
                    # the classifier's own Classification object must reach the strategy
                    all_cls = [r for r in call.records if r[0] in ("classify", "rclassify")
                               and r[1] == op.obj and r[4] is not None]
                    if not any(c[4] == s[9] for c in (cls or all_cls)):
                        v.append(("c05.ctx-classification",
                                  "strategy did not receive the classifier's Classification object"))
            delay = sanitise(s[10], remaining)
            got = a.retries[0][3]
            if got != delay:
                v.append(("c05.delay",
                          f"attempt {a.i}: strategy answered {s[10]} with {remaining} remaining: "
                          f"delay must be {delay}, retry event reports {got}"))
            for r in a.seg:
                if r[0] == "log" and r[1] == "retry":
                    f = dict(r[2])
                    if f.get("sleep_s") != delay:
                        v.append(("c05.delay-log", f"log retry sleep_s={f.get('sleep_s')} != {delay}"))
            for h in a.handlers:
                if h[3] != delay:
                    v.append(("c05.delay-handler", f"handler received {h[3]}, delay is {delay}"))
            for b in a.bsleeps:
                if b[3] != delay:
                    v.append(("c05.delay-before-sleep", f"before_sleep received {b[3]}, delay is {delay}"))
            for sl in a.sleeps:
                if sl[2] != delay:
                    v.append(("c05.delay-sleeper", f"sleeper received {sl[2]}, delay is {delay}"))
            if (not a.sleeps and not a.last and cfg["sleeper"]
                    and all(f[0] == "before_sleep" for f in cfg["faults"] or ())
                    and not any(h[4] != "SLEEP" for h in a.handlers)):
                # the retry was granted and the next attempt made: the sleeper was owed the delay
                v.append(("c05.delay-sleeper", f"attempt {a.i}: the next attempt was made but the "
                                               f"sleeper never ran (delay {delay})"))
            if any(h[4] == "DEFER" for h in a.handlers) and call.end is not None:
                end = call.end
                nxt = end[10] if end[1] == "outcome" else (end[4][5] if end[4] else "missing")
                if nxt != delay:
                    v.append(("c05.delay-next-sleep", f"next_sleep_s={nxt}, delay is {delay}"))
            prev = delay
    return v


def run_plain(cfg, entry, ch):
    full = seq.mkcfg(**cfg)
    w = seq.World(full, ch)
    w.call(entry)
    return w, monitor(w, full)


def run_task(task, seed):
    return explore_task(task, seed, run_plain)


def replay(doc):
    return run_plain(doc["cfg"], doc["entry"], Chooser(tuple(doc["choices"])))
