"""C03 - retry exactly when permitted: no premature give-up, no wasted backoff."""

from __future__ import annotations

import itertools

from ..kernel import Chooser
from ..lazy import seq
from ..seqcheck import explore_task, nest_tasks
from ..spec import BudgetRef, attempts, deadline_s, delivered_reason, terminal_reason
from ..tracelib import CANCEL_LABELS, split_calls

PID = "C03"
Q4 = ["Retry.call", "Retry.execute", "AsyncRetry.call", "AsyncRetry.execute"]
ALPHA = ["ok", "x:T", "x:U", "x:P", "r:T", "r:R"]

META = {
    "level": "model_checking",
    "engine": "E1 seq",
    "rule": ("configuration lattice (max_attempts, per-class table, UNKNOWN cap, strategy table, "
             "deadline, budget fill) x every outcome sequence (free) x abort polls, handler "
             "decisions, attempt durations, sleeper overshoot as bounded deviations; the monitor "
             "recomputes the set of stop conditions that hold at each failed attempt from the "
             "observed history; distinct = (end kind, stop reason, attempts, failure sequence)"),
    "assumptions": [
        "attempt_timeout_s=None",
        "sleeper advances the monotonic clock by at least the requested amount",
        "budget boundary (grant exactly window_s old) is a don't-care",
        "elapsed exactly deadline_s after a sleep: continuing or stopping both accepted",
    ],
    "min_outcomes": {"quick": 12, "thorough": 12},
}


def bounds(tier):
    return {"deviation_bound": 1 if tier == "quick" else 2, "max_attempts": [1, 2, 3],
            "alphabet": ALPHA}


BUDGETS = [None, {"max": 1, "window": 8}, {"max": 2, "window": 8, "prefill": 1},
           {"max": 2, "window": 3, "prefill": 2}]


def tasks(tier):
    out = []
    if tier == "quick":
        pcs = [{}, {"T": 1}, {"U": 2}]
        mus = [None, 1]
        strats = [{"default": "ctx", "per": {}}, {"default": None, "per": {"T": "ctx", "U": "legacy"}}]
        buds = BUDGETS[:3]
        bound = 1
    else:
        pcs = [{}, {"T": 0}, {"T": 1}, {"U": 1}, {"U": 2}]
        mus = [None, 0, 1]
        strats = [{"default": "ctx", "per": {}}, {"default": "legacy", "per": {"T": "ctx"}},
                  {"default": None, "per": {"T": "ctx", "U": "legacy"}}]
        buds = BUDGETS
        bound = 2
    for M, pc, mu, st, dl, bud in itertools.product([1, 2, 3], pcs, mus, strats, [None, 3], buds):
        cfg = dict(M=M, per_class=pc, max_unknown=mu, strat=st, deadline=dl, budget=bud,
                   alphabet=ALPHA, durs=[0, 2], overshoot=[0, 3], abort=True, handler="call",
                   strat_menu=[1, 0, 9])
        for e in Q4:
            if M == 3 and tier != "quick":
                for first in ALPHA:
                    out.append({"family": "permit", "cfg": dict(cfg, script_prefix=[first]),
                                "entry": e, "bound": bound, "weight": 3})
            else:
                out.append({"family": "permit", "cfg": cfg, "entry": e, "bound": bound,
                            "weight": M})
    # the limits reach the loop through every sugar layer (None = "no such limit" included)
    SUGAR = ["deco", "adeco", "RetryPolicy.call", "AsyncRetryPolicy.execute", "RetryCfg.call",
             "AsyncRetryCfg.execute", "RetryPolicyCfg.execute", "AsyncRetryPolicyCfg.call",
             "Policy.context", "AsyncPolicy.context", "RetryPolicySet.call",
             "AsyncRetryPolicySet.execute", "RetrySet.execute", "AsyncRetrySet.call"]
    for pc, mu, e in itertools.product([{}, {"U": 3}, {"T": 1}], [None, 1, 3], SUGAR):
        cfg = dict(M=4, per_class=pc, max_unknown=mu, alphabet=["ok", "x:U", "x:T", "r:U"],
                   sleeper="policy")
        out.append({"family": "permit-sugar", "cfg": cfg, "entry": e, "bound": 0})
    # strategy tables with entries for non-retryable classes (a table built by comprehension over
    # ErrorClass): PERMANENT / AUTH / PERMISSION stay non-retryable; and tables with no default
    # and no entry for the failing class (UNKNOWN does not borrow another class's strategy)
    for M, mu, e in itertools.product([2, 3], [None, 2], Q4 + ["Policy.call", "RetryPolicy.execute", "deco"]):
        cfg = dict(M=M, max_unknown=mu, alphabet=["ok", "x:P", "r:A", "x:F", "x:T", "r:P"],
                   strat={"default": "ctx", "per": {"P": "ctx", "A": "legacy", "F": "ctx", "T": "ctx"}},
                   budget={"max": 3, "window": 8}, sleeper="call" if e != "deco" else "policy")
        out.append({"family": "permit-nonretryable-with-strategy", "cfg": cfg, "entry": e, "bound": 0})
    for M, mu, per, e in itertools.product([2, 3], [None, 2], [{"T": "ctx"}, {"T": "legacy", "R": "ctx"}, {"U": "ctx"}],
                                           Q4 + ["Policy.call", "RetryPolicy.execute"]):
        cfg = dict(M=M, max_unknown=mu, alphabet=["ok", "x:U", "r:U", "x:T", "x:R", "r:S"],
                   strat={"default": None, "per": per}, budget={"max": 3, "window": 8})
        out.append({"family": "permit-no-strategy-for-class", "cfg": cfg, "entry": e, "bound": 0})
        # the same with failures that carry a Retry-After hint: a hint is advice for a strategy,
        # it does not stand in for one
        cfg2 = dict(cfg, alphabet=["ok", "x:U+ra", "r:S+ra", "x:R+ra", "x:T", "r:U+ra"], ra_ticks=2)
        out.append({"family": "permit-no-strategy-for-class", "cfg": cfg2, "entry": e, "bound": 0})
    # a deadline of zero; handler decisions through the context-manager entry points
    for e in Q4 + ["Policy.call", "RetryPolicy.execute"]:
        cfg = dict(M=3, deadline=0, alphabet=["ok", "x:T", "r:T"], durs=[0, 1], max_unknown=None,
                   budget={"max": 3, "window": 8})
        out.append({"family": "permit-zero-deadline", "cfg": cfg, "entry": e, "bound": 1})
    for e in ["Retry.context", "AsyncRetry.context", "Policy.context", "AsyncPolicy.context",
              "RetryPolicy.context", "Retry.contextset"]:
        cfg = dict(M=3, alphabet=["ok", "x:T", "r:T"], handler="call", max_unknown=None,
                   before_sleep="call", sleeper="call")
        out.append({"family": "permit-context-handler", "cfg": cfg, "entry": e, "bound": 1})
    # a sleep handler answering the plain strings "defer" / "abort": if the library accepts them
    # they mean what they say (no further attempt); if it rejects them the run ends
    for ans, e in itertools.product(["S:defer", "S:abort"], Q4):
        cfg = dict(M=3, alphabet=["ok", "x:T", "r:T"], handler="call", handler_menu=[ans],
                   max_unknown=None)
        out.append({"family": "permit-string-answer", "cfg": cfg, "entry": e, "bound": 0})
    # an abort predicate that answers with a truthy value other than True (a count, numpy.bool_)
    for mode, e in itertools.product(["answer", "flag"], Q4 + ["Policy.call", "RetryPolicy.execute"]):
        cfg = dict(M=3, alphabet=["ok", "x:T", "r:T"], abort=True, abort_mode=mode, abort_truthy=True,
                   max_unknown=None, budget={"max": 2, "window": 8})
        out.append({"family": "permit-abort-truthy", "cfg": cfg, "entry": e, "bound": 1})
    # concurrent.futures.CancelledError is an ordinary Exception: a classified, retryable failure
    for e in Q4 + ["Policy.call", "Policy.execute"]:
        cfg = dict(M=3, alphabet=["ok", "xcf:T", "xcf:P", "x:T"], max_unknown=None)
        out.append({"family": "permit-futures-cancelled", "cfg": cfg, "entry": e, "bound": 0})
    # a Retry-After hint longer than the time left while the designated strategy's delay fits: the
    # hint is advice for the strategy, not a stop condition
    for e in Q4:
        cfg = dict(M=3, deadline=6, ra_ticks=9, alphabet=["ok", "x:R+ra", "r:R+ra", "x:T"],
                   strat={"default": "legacy", "per": {}}, strat_menu=[1], max_unknown=None,
                   durs=[0, 1])
        out.append({"family": "permit-long-hint", "cfg": cfg, "entry": e, "bound": 1})
    # the operation returns None and the result classifier rejects None
    for M, e in itertools.product([2, 3], Q4):
        cfg = dict(M=M, alphabet=["ok", "rn:T", "rn:P", "x:T"], force_rc=True, max_unknown=None)
        out.append({"family": "permit-none-result", "cfg": cfg, "entry": e, "bound": 0})
    # an attempt fails inside its on_attempt_start hook: whatever the entry point makes of that,
    # a run of max_attempts M consults the strategy / sleeps / takes a token at most M-1 times
    for M, idx, bud, e in itertools.product([2, 3], [0, 1, 2], [None, {"max": 3, "window": 8}],
                                            Q4 + ["Policy.execute", "AsyncPolicy.execute"]):
        if idx >= M:
            continue
        cfg = dict(M=M, alphabet=["ok", "x:T", "r:T"], attempt_hooks="call", max_unknown=None,
                   budget=bud, faults=[("astart", idx, "RuntimeError")], strat_menu=[1])
        out.append({"family": "permit-hook-fault", "cfg": cfg, "entry": e, "bound": 0})
    # another user of the shared budget takes a token while the library is inside a callback
    for M, bud, e in itertools.product([2, 3], [{"max": 1, "window": 8}, {"max": 2, "window": 8}],
                                       Q4):
        cfg = dict(M=M, budget=bud, alphabet=["ok", "x:T", "r:T"], intrude=["strategy", "classifier"],
                   max_unknown=None)
        out.append({"family": "permit-shared-budget", "cfg": cfg, "entry": e, "bound": 2})
    # zero delay: the sleep handler must still be asked
    for M, e in itertools.product([2, 3], Q4):
        cfg = dict(M=M, alphabet=["ok", "x:T", "r:T"], handler="call", handler_free=True,
                   strat_menu=[0, "nan", -1, 1], strat_free=True, max_unknown=None)
        out.append({"family": "permit-zero-delay", "cfg": cfg, "entry": e, "bound": 0})
    # two consecutive calls on one policy object: the second is judged like the first
    for pc, mu, e in itertools.product([{"T": 1}, {"T": 2, "U": 1}], [None, 1], Q4):
        cfg = dict(M=3, per_class=pc, max_unknown=mu, alphabet=["ok", "x:T", "x:U", "r:T"])
        out.append({"family": "permit-two-calls", "cfg": cfg, "entry": e, "bound": 0, "ncalls": 2})
    # the abort condition is a flag raised by the environment at some point of the run
    for M, hd, e in itertools.product([2, 3], [None, "call"], Q4):
        cfg = dict(M=M, alphabet=["ok", "x:T", "r:T"], abort=True, abort_mode="flag", handler=hd,
                   handler_menu=["SLEEP"], max_unknown=None, strat_menu=[1, 0], strat_free=True)
        out.append({"family": "permit-abort-flag", "cfg": cfg, "entry": e, "bound": 1})
    # attempt_timeout_s (sync: owned executor, async: virtual event loop)
    for M, pc, at, e in itertools.product([2, 3], [{}, {"T": 1}], [1, 2], Q4):
        cfg = dict(M=M, per_class=pc, alphabet=["ok", "x:T", "x:U", "r:T"], attempt_timeout=at,
                   durs=[0, 3], dur_free=True, deadline=6, abort=True, handler="call",
                   loop=e.startswith("Async"), sleeper_async=e.startswith("Async"), max_unknown=1)
        out.append({"family": "permit-attempt-timeout", "cfg": cfg, "entry": e, "bound": 1})
    # a handler whose answer does not depend on anything (always DEFER / always ABORT): whatever
    # the delay, no failed attempt may be followed by another one
    for M, e, hm in itertools.product([2, 3], Q4, ["DEFER", "ABORT"]):
        cfg = dict(M=M, alphabet=["ok", "x:T", "r:T"], handler="policy", handler_menu=[hm],
                   strat_menu=[0, "nan", -1, 1], strat_free=True, max_unknown=None)
        out.append({"family": "permit-const-handler", "cfg": cfg, "entry": e, "bound": 0})
    # no handler, no abort predicate: the plain path (default sleeper through patched sleep)
    for M, bud, dl in itertools.product([1, 2, 3], buds, [None, 3]):
        cfg = dict(M=M, budget=bud, deadline=dl, alphabet=ALPHA, durs=[0, 2], overshoot=[0, 2],
                   sleeper=None, strat_menu=[1, 9])
        for e in Q4:
            out.append({"family": "permit-plain", "cfg": cfg, "entry": e, "bound": bound + 1})
    out += nest_tasks(Q4, "permit-reentrant", ["ok", "x:T", "r:T", "x:U"], handler="call",
                      per_class={"T": 1})
    return out


GRANT_KEY = "c03.wasted-backoff"
F1_KEY = "c03.final-attempt-grant"


def monitor_final(w, cfg):
    """No retry is granted after the final permitted attempt, however that attempt failed."""
    v = []
    M = cfg["M"]
    for call in split_calls(w.trace):
        for kind, what in (("strategy", "strategy consultations"), ("sleep", "backoff sleeps"),
                           ("consume", "budget tokens taken")):
            n = sum(1 for r in call.records if r[0] == kind and (kind != "consume" or r[1]))
            if n > M - 1:
                v.append(("c03.retry-after-final-attempt",
                          f"{n} {what} in a run with max_attempts={M}"))
        retries = sum(1 for r in call.records if r[0] == "metric" and r[1] == "retry")
        if retries > M - 1:
            v.append(("c03.retry-after-final-attempt",
                      f"{retries} retry events in a run with max_attempts={M}"))
    return v


def monitor(w, cfg):
    if any(f[0] == "astart" for f in cfg["faults"] or ()):
        return monitor_final(w, cfg)
    v = []
    D = deadline_s(cfg)
    budget = BudgetRef(cfg)
    for call in split_calls(w.trace):
        last_failed = None
        flag = next((r for r in call.records if r[0] == "abort_flag"), None)
        if flag is not None:
            for r in call.records[call.records.index(flag) + 1:]:
                if r[0] == "op" and r[2] != "cut" and r[3] >= flag[2]:
                    v.append(("c03.attempt-after-abort-request",
                              f"abort was requested (during {flag[1]} at {flag[2]}) yet attempt "
                              f"{r[1]} was made"))
        aborted = any(r[0] == "poll" and r[1] for r in call.records)
        cancelled = False
        for a in attempts(cfg, call, budget):
            op = a.op
            if op.kind == "ok":
                bad = [r for r in a.seg if r[0] in ("strategy", "consume", "sleep", "handler",
                                                    "bsleep", "poll")
                       or (r[0] == "metric" and r[1] != "success")]
                if bad or not a.last:
                    v.append(("c03.after-success",
                              f"after successful attempt {a.i}: {bad[:2] or 'another invocation'}"))
                continue
            if not op.failed:
                if op.kind in CANCEL_LABELS or op.kind in ("nested",):
                    cancelled = True
                if op.kind == "abort":
                    aborted = True
                if not a.last:
                    v.append(("c03.after-abort", f"invocation after {op.label}"))
                continue
            last_failed = a
            grants = []
            if a.retries:
                grants.append("retry event")
            if any(c[1] for c in a.consumes):
                grants.append("budget token")
            if a.handlers:
                grants.append("sleep handler consulted")
            if a.sleeps or a.bsleeps:
                grants.append("sleep")
            if not a.last:
                grants.append("next invocation")
            if cfg["budget"] is not None and (a.retries or a.sleeps or not a.last) \
                    and not any(c[1] for c in a.consumes) and not a.must:
                v.append(("c03.retry-without-token",
                          f"attempt {a.i}: a retry was granted ({grants}) although the shared "
                          f"budget did not grant a token (consume calls: {a.consumes})"))
            if (cfg["handler"] and len(cfg["handler_menu"]) == 1
                    and cfg["handler_menu"][0] in ("DEFER", "ABORT") and not a.last):
                v.append(("c03.handler-ignored",
                          f"attempt {a.i} failed and the sleep handler always answers "
                          f"{cfg['handler_menu'][0]}, yet another attempt was made "
                          f"(handler consulted: {bool(a.handlers)})"))
            if not a.last and a.sleeps and (a.sleeps[-1][4] - call.t_start) > D:
                v.append(("c03.attempt-after-deadline",
                          f"attempt {a.i + 1} was made although the backoff after attempt {a.i} "
                          f"ended at elapsed {a.sleeps[-1][4] - call.t_start} > deadline {D}"))
            if a.must and grants:
                key = F1_KEY if a.must == {"MAX_ATTEMPTS_GLOBAL"} else GRANT_KEY
                v.append((key, f"attempt {a.i} ({op.label}, elapsed {a.elapsed}) must not be "
                               f"retried ({sorted(a.must)}) but the library granted: {grants}"))
            if not a.last and any(str(h[4]) in ("S:defer", "S:abort") for h in a.handlers):
                v.append(("c03.attempt-after-handler-stop",
                          f"the sleep handler answered {a.handlers[-1][4][2:]!r} after attempt {a.i} "
                          f"yet another attempt was made"))
            if a.last and not a.may:
                just = []
                if a.abort_polled:
                    just.append("abort")
                if any(h[4] in ("DEFER", "ABORT") or str(h[4]).startswith(("S:", "BAD"))
                       for h in a.handlers):
                    just.append("handler")
                if any((s[4] - call.t_start) >= D for s in a.sleeps):
                    just.append("deadline during sleep")
                if any(s[3] == s[4] and isinstance(cfg["overshoot"][-1], str) for s in a.sleeps):
                    just.append("sleeper raised")
                if not just:
                    v.append(("c03.premature-stop",
                              f"attempt {a.i} ({op.label}) failed with no stop condition holding "
                              f"(elapsed {a.elapsed}, D={D}) yet no further attempt was made"))
        if call.end is None:
            continue
        # truthful stop reason
        ev, ev_reason = terminal_reason(call)
        reasons = {r for r in (ev_reason, delivered_reason(call)) if r is not None}
        if not reasons or cancelled:
            continue
        allowed = set()
        if last_failed is not None:
            allowed |= last_failed.may
            if any(h[4] == "DEFER" for h in last_failed.handlers):
                allowed.add("SCHEDULED")
            if any(h[4] == "ABORT" for h in last_failed.handlers):
                allowed.add("ABORTED")
            if any((s[4] - call.t_start) >= D for s in last_failed.sleeps):
                allowed.add("DEADLINE_EXCEEDED")
        if aborted:
            allowed.add("ABORTED")
        for r in reasons:
            if r not in allowed:
                v.append(("c03.false-reason",
                          f"reported stop reason {r} but the conditions that hold are "
                          f"{sorted(allowed)} (last failed attempt: "
                          f"{last_failed.op if last_failed else None})"))
    return v


def run_plain(cfg, entry, ch):
    full = seq.mkcfg(**cfg)
    w = seq.World(full, ch)
    w.call(entry)
    return w, monitor(w, full)


def run_two(cfg, entry, ch):
    full = seq.mkcfg(**cfg)
    w = seq.World(full, ch)
    w.call(entry)
    w.call(entry)
    return w, monitor(w, full)


def run_task(task, seed):
    if task.get("ncalls") == 2:
        return explore_task(task, seed, run_two)
    return explore_task(task, seed, run_plain)


def replay(doc):
    if doc.get("extra", {}).get("ncalls") == 2:
        return run_two(doc["cfg"], doc["entry"], Chooser(tuple(doc["choices"])))
    return run_plain(doc["cfg"], doc["entry"], Chooser(tuple(doc["choices"])))
