"""C18 - built-in backoff strategies are total and stay inside their envelopes."""

from __future__ import annotations

import itertools
import math
from fractions import Fraction

from ..seqcheck import new_result

PID = "C18"

META = {
    "level": "exploration",
    "engine": "E5 domain + E2 state (adaptive)",
    "rule": ("full product of attempt in {1..4096} + {2^k, 2^k+-1: k<=64} + {1e6, 1e9, 1e18} x "
             "previous delay in {None, 0, 1e-9, base, max, 10*max, 1e308} x (base, max) over "
             "{0, 1e-9, 0.25, 1, 30, 1e6}^2 (base > max included) x owned random draw fraction in {0, "
             "2^-53, 0.5, 1-2^-53, 1}; retry_after_or over hint x jitter x remaining x fallback "
             "answer lattices; adaptive(): BFS over histories record_success | record_failure | "
             "tick | call(fallback answer) on the real AdaptiveStrategy for target_success x "
             "multiplier lattices; distinct = distinct input tuples; non-trivial = attempt > 1 or "
             "a previous delay or a non-default draw"),
    "assumptions": ["parameters, delays and draws outside the lattice are not covered: bounded "
                    "input enumeration, not a proof over the reals",
                    "each strategy is affine and monotone in the draw, so the endpoints of the "
                    "draw interval bound the result; interior points are a guard",
                    "token_backoff envelope compared with relative tolerance 1e-9 (1.5**n is "
                    "inexact in binary floating point)"],
    "min_outcomes": {"quick": 6},
}

PARAMS = [0.0, 1e-9, 0.25, 1.0, 30.0, 1e6]
FRACS = [0.0, 2.0 ** -53, 0.5, 1.0 - 2.0 ** -53, 1.0]


def attempts(tier):
    a = set(range(1, 4097 if tier == "thorough" else 1100))
    for k in range(0, 65):
        a.update({2 ** k - 1, 2 ** k, 2 ** k + 1})
    a.update({1750, 1751, 1752, 2047, 2048, 4096, 10 ** 6, 10 ** 9, 10 ** 18})
    a.discard(0)
    return sorted(a)


def bounds(tier):
    return {"attempts": len(attempts(tier)), "adaptive_depth": 7 if tier == "quick" else 9}


def tasks(tier):
    out = []
    # base_s > max_s is accepted by the constructors (decorrelated_jitter(max_s=0.0) is a
    # documented idiom): the envelopes are stated in terms of max_s / cap and hold there too
    pairs = [(b, m) for b in PARAMS for m in PARAMS]
    for strat in ("decorrelated_jitter", "equal_jitter", "token_backoff"):
        for (b, m) in pairs:
            out.append({"family": "envelope", "cfg": {"strategy": strat, "base": b, "max": m},
                        "entry": strat, "bound": 0, "weight": 3})
    out.append({"family": "retry-after-or", "cfg": {}, "entry": "retry_after_or", "bound": 0})
    d = 7 if tier == "quick" else 9
    for ts, (mn, mx) in itertools.product([0.5, 0.9, 1.0], [(1.0, 1.0), (1.0, 5.0), (2.0, 5.0)]):
        out.append({"family": "adaptive", "cfg": {"target": ts, "min": mn, "max": mx, "window": 4},
                    "entry": "adaptive", "bound": d, "weight": 4})
    out.append({"family": "adaptive", "cfg": {"target": 0.9, "min": 1.0, "max": 5.0, "window": 4,
                                               "fallback_kind": "bound"},
                "entry": "adaptive", "bound": d - 3, "weight": 2})
    out.append({"family": "adaptive", "cfg": {"target": 0.9, "min": 1.0, "max": 3.0, "window": 4,
                                               "fallback_kind": "nested"},
                "entry": "adaptive", "bound": d - 3, "weight": 2})
    # boundary parameterisations: a target so small that 1 - target rounds to 1.0
    for ts in (1e-300, 2.0 ** -60, 1e-9):
        out.append({"family": "adaptive", "cfg": {"target": ts, "min": 1.0, "max": 5.0, "window": 4},
                    "entry": "adaptive", "bound": d - 2, "weight": 2})
    # the context carries a remaining deadline smaller than the scaled delay: the factor is still
    # within [min_multiplier, max_multiplier] (clamping to the deadline is the policy's job)
    for mn, mx, rem in [(2.0, 5.0, 0.1), (1.0, 5.0, 0.05), (1.5, 1.5, 0.0)]:
        out.append({"family": "adaptive", "cfg": {"target": 0.9, "min": mn, "max": mx, "window": 4,
                                                   "remaining": rem},
                    "entry": "adaptive", "bound": d - 2, "weight": 2})
    # the failure carries a Retry-After hint (which adaptive() itself does not interpret)
    for mn, mx, hint in [(2.0, 5.0, 2.0), (1.5, 1.5, 0.5), (1.0, 3.0, 2.0)]:
        out.append({"family": "adaptive", "cfg": {"target": 0.9, "min": mn, "max": mx, "window": 4,
                                                   "hint": hint},
                    "entry": "adaptive", "bound": d - 2, "weight": 2})
    # very long histories inside one window (bounded-memory optimisations must not break the range)
    for ts, (mn, mx) in itertools.product([0.5, 0.9], [(1.0, 3.0), (2.0, 5.0)]):
        out.append({"family": "adaptive-long", "cfg": {"target": ts, "min": mn, "max": mx, "window": 4},
                    "entry": "adaptive", "bound": 0, "weight": 4})
    return out


def ref_cap(base, mx, g, a):
    """min(max, base*g^a) in exact rational arithmetic (saturating for astronomically large a)."""
    if base == 0:
        return Fraction(0)
    if a > 6000:
        return Fraction(mx)  # base >= 1e-9 and g >= 1.5: base*g^a exceeds any max <= 1e6
    v = Fraction(base) * (Fraction(g) ** a)
    return min(Fraction(mx), v)


def add_violation(res, key, msg, cfg, entry, case):
    res["nviol"] += 1
    res["viol_keys"][key] = res["viol_keys"].get(key, 0) + 1
    if not any(v["key"] == key for v in res["violations"]):
        res["violations"].append({"key": key, "msg": msg, "family": "domain", "cfg": cfg,
                                  "entry": entry, "choices": list(case), "labels": list(case),
                                  "trace": [], "extra": {}})


def run_envelope(task, seed):
    from .. import env as E
    E.install()
    from redress import strategies as S
    from redress.errors import ErrorClass
    res = new_result()
    cfg = task["cfg"]
    name, b, m = cfg["strategy"], cfg["base"], cfg["max"]
    fn = getattr(S, name)(base_s=b, max_s=m)
    clock = E.Clock()
    E.set_clock(clock)
    prevs = [None, 0.0, 1e-9, b, m, 10 * m, 1e308]
    atts = attempts(task.get("tier", "quick"))
    g = {"equal_jitter": 2, "token_backoff": Fraction(3, 2)}.get(name)
    tol = 1e-9 if name == "token_backoff" else 1e-15
    # one strategy object serves every run through a policy: after the ascending sweep the same
    # object is asked again for lower attempt numbers (another, interleaved run)
    for a in list(atts) + [x for x in reversed(atts) if 1 < x <= 12]:
        cap = ref_cap(b, m, g, a) if g else None
        for prev in (prevs if name == "decorrelated_jitter" else [None, 0.0, 1e308]):
            for fr in FRACS:
                clock.frac = fr
                res["execs"] += 1
                case = (name, b, m, a, prev, fr)
                if a > 1 or prev is not None or fr not in (0.0,):
                    res["nontrivial"].add(hash(case))
                try:
                    v = fn(a, ErrorClass.TRANSIENT, prev)
                except Exception as e:  # noqa: BLE001
                    res["outcomes"].add((name, "raised", type(e).__name__))
                    add_violation(res, "c18.raises",
                                  f"{name}(base_s={b}, max_s={m})(attempt={a}, prev={prev}) with "
                                  f"draw fraction {fr} raised {type(e).__name__}: {e}", cfg,
                                  name, case)
                    continue
                if not isinstance(v, (int, float)) or not math.isfinite(v):
                    add_violation(res, "c18.not-finite", f"{case} -> {v!r}", cfg, name, case)
                    continue
                if name == "decorrelated_jitter":
                    ok = 0.0 <= v <= m
                    res["outcomes"].add((name, "lo" if v == 0 else "hi" if v == m else "mid"))
                    if not ok:
                        add_violation(res, "c18.envelope",
                                      f"decorrelated_jitter{case[1:]} -> {v!r} outside [0, {m}]",
                                      cfg, name, case)
                else:
                    lo, hi = float(cap / 2), float(cap)
                    ok = lo * (1 - tol) - 1e-300 <= v <= hi * (1 + tol) + 1e-300
                    res["outcomes"].add((name, "sat" if cap == Fraction(m) else "exp",
                                         "lo" if v <= lo else "hi" if v >= hi else "mid"))
                    if not ok:
                        add_violation(res, "c18.envelope",
                                      f"{name}{case[1:]} -> {v!r} outside [cap/2, cap] = "
                                      f"[{lo!r}, {hi!r}]", cfg, name, case)
    res["samples"].append({"case": [name, b, m, atts[len(atts) // 2], None, 0.5]})
    return res


def run_retry_after_or(task, seed):
    from .. import env as E
    E.install()
    from redress import strategies as S
    from redress.classify import Classification
    from redress.errors import ErrorClass
    res = new_result()
    clock = E.Clock()
    E.set_clock(clock)
    hints = [None, 0.0, 0.125, 5.0, 1e308, math.nan, math.inf, -math.inf, -1.0, 5, True]
    jitters = [0.0, 0.25, -1.0, 1e308, math.nan]
    remainings = [None, 0.0, 0.125, 1.125]
    fallbacks = [0.0, 0.125, math.nan, math.inf, -1.0, 1e308]
    import functools

    class Client:
        """Fallback strategies supplied as bound methods / class methods of a client object."""
        value = 0.0

        def __init__(self, v):
            self.v = v

        def backoff(self, ctx):
            return self.v

        def legacy_backoff(self, attempt, klass, prev):
            return self.v

        @classmethod
        def class_backoff(cls, ctx):
            return cls.value

        def __call__(self, ctx):
            return self.v

    for hint, jit, rem, fb, fr, legacy in itertools.product(
            hints, jitters, remainings, fallbacks, FRACS,
            [False, True, "bound", "bound-legacy", "classmethod", "partial", "object"]):
        if legacy is True:
            def fbfn(attempt, klass, prev, _fb=fb):
                return _fb
        elif legacy is False:
            def fbfn(ctx, _fb=fb):
                return _fb
        elif legacy == "bound":
            fbfn = Client(fb).backoff
        elif legacy == "bound-legacy":
            fbfn = Client(fb).legacy_backoff
        elif legacy == "classmethod":
            Sub = type("Sub", (Client,), {"value": fb})
            fbfn = Sub.class_backoff
        elif legacy == "partial":
            fbfn = functools.partial(lambda scale, ctx, _fb=fb: _fb, 1.0)
        else:
            fbfn = Client(fb)
        if legacy not in (False, True) and (jit not in (0.0, 0.25) or fr not in FRACS[:2]):
            continue
        clock.frac = fr
        res["execs"] += 1
        case = ("retry_after_or", repr(hint), jit, rem, repr(fb), fr, legacy)
        res["nontrivial"].add(hash(case))
        try:
            fn = S.retry_after_or(fbfn, jitter_s=jit)
            ctx = S.BackoffContext(attempt=1, classification=Classification(
                klass=ErrorClass.RATE_LIMIT, retry_after_s=hint), prev_sleep_s=None,
                remaining_s=rem, cause="exception")
            v = fn(ctx)
        except Exception as e:  # noqa: BLE001
            add_violation(res, "c18.raises", f"{case} raised {type(e).__name__}: {e}", {},
                          "retry_after_or", case)
            continue
        ok = isinstance(v, (int, float)) and math.isfinite(v) and v >= 0 and (rem is None or v <= rem)
        res["outcomes"].add(("retry_after_or", hint is not None and isinstance(hint, (int, float))
                             and math.isfinite(hint), rem is not None, v == 0))
        if not ok:
            add_violation(res, "c18.envelope", f"{case} -> {v!r}: must be finite, >= 0 and <= "
                                               f"remaining", {}, "retry_after_or", case)
            continue
    res["samples"].append({"case": ["retry_after_or", "hint=5.0", 0.25, 1.125, "fallback=0.125", 0.5]})
    return res


def run_adaptive(task, seed):
    """BFS over histories of the real AdaptiveStrategy against a failure-rate reference."""
    import collections

    from .. import env as E
    E.install()
    from redress import strategies as S
    from redress.classify import Classification
    from redress.errors import ErrorClass
    res = new_result()
    cfg = task["cfg"]
    depth = task["bound"]
    W = cfg["window"] * E.TAU
    events = [("ok",), ("fail",), ("tick", 1), ("tick", cfg["window"]), ("tick", cfg["window"] + 1),
              ("call", 0.0), ("call", 0.125), ("call", 5.0), ("call", -1.0)]
    ctx = S.BackoffContext(attempt=1, classification=Classification(klass=ErrorClass.TRANSIENT)
                           if cfg.get("hint") is None else
                           Classification(klass=ErrorClass.RATE_LIMIT, retry_after_s=cfg["hint"]),
                           prev_sleep_s=None, remaining_s=cfg.get("remaining"), cause="exception")

    def replay(hist):
        clock = E.Clock()
        E.set_clock(clock)
        box = [0.0]
        if cfg.get("fallback_kind") == "nested":
            # the fallback is itself an adaptive strategy with a fixed factor of 2 (min = max = 2):
            # the outer one scales *that* value
            fallback = S.adaptive(lambda c: box[0], window_s=W, target_success=0.9,
                                  min_multiplier=2.0, max_multiplier=2.0, clock=E.v_monotonic)
        elif cfg.get("fallback_kind") == "bound":
            class _Client:
                def backoff(self, c):
                    return box[0]
            fallback = _Client().backoff
        else:
            def fallback(c):
                return box[0]
        st = S.adaptive(fallback, window_s=W, target_success=cfg["target"],
                        min_multiplier=cfg["min"], max_multiplier=cfg["max"], clock=E.v_monotonic)
        evs = []
        out = None
        for ev in hist:
            if ev[0] == "tick":
                clock.now += ev[1] * E.TAU
            elif ev[0] == "ok":
                st.record_success()
                evs.append((clock.now, True))
            elif ev[0] == "fail":
                st.record_failure(ErrorClass.TRANSIENT)
                evs.append((clock.now, False))
            else:
                box[0] = ev[1]
                try:
                    out = ("val", st(ctx))
                except Exception as e:  # noqa: BLE001
                    out = ("raised", f"{type(e).__name__}: {e}")
        return clock.now, evs, out, st

    seen = {(): ()}
    frontier = collections.deque([()])
    trans = 0
    while frontier:
        hist = frontier.popleft()
        if len(hist) >= depth:
            continue
        for ev in events:
            h2 = hist + (ev,)
            now, evs, out, st = replay(h2)
            trans += 1
            if ev[0] == "call":
                fb = ev[1] * (2.0 if cfg.get("fallback_kind") == "nested" else 1.0)
                case = ("adaptive", cfg["target"], cfg["min"], cfg["max"], [list(e) for e in h2])
                res["nontrivial"].add(hash(repr(case)))
                if out[0] == "raised":
                    add_violation(res, "c18.raises", f"adaptive {case} raised {out[1]}", cfg,
                                  "adaptive", [list(e) for e in h2])
                    continue
                v = out[1]
                # (the exact multiplier is not part of the statement: only its range is)
                in_env = (min(fb * cfg["min"], fb * cfg["max"]) - 1e-12 <= v
                          <= max(fb * cfg["min"], fb * cfg["max"]) + 1e-12)
                res["outcomes"].add(("adaptive", fb > 0, v > fb, v == fb * cfg["max"]))
                if not in_env or (fb >= 0 and v < fb - 1e-12):
                    add_violation(res, "c18.envelope",
                                  f"adaptive after {list(h2)}: fallback {fb} scaled to {v!r}, "
                                  f"outside [{cfg['min']}, {cfg['max']}] x fallback", cfg,
                                  "adaptive", [list(e) for e in h2])
                continue  # a call does not change the state (pruning aside): do not extend
            key = tuple((now - t, s) for t, s in evs)
            if key not in seen:
                seen[key] = h2
                frontier.append(h2)
    res["execs"] = trans
    res["states"] = len(seen)
    res["transitions"] = trans
    res["samples"].append({"history": [list(e) for e in list(seen.values())[-1]],
                           "cfg": cfg})
    return res


def run_adaptive_long(task, seed):
    """Histories of thousands of events: N failures (with a few successes mixed in) recorded at
    one instant or spread over the window, then calls with several fallback answers."""
    from .. import env as E
    E.install()
    from redress import strategies as S
    from redress.classify import Classification
    from redress.errors import ErrorClass
    res = new_result()
    cfg = task["cfg"]
    W = cfg["window"] * E.TAU
    ctx = S.BackoffContext(attempt=1, classification=Classification(klass=ErrorClass.TRANSIENT),
                           prev_sleep_s=None, remaining_s=None, cause="exception")
    sizes = [1, 2, 64, 1023, 1024, 1025, 4095, 4096, 4097, 5000, 8192, 20000]
    for n, every_ok, spread in itertools.product(sizes, [0, 3, 50], [False, True]):
        clock = E.Clock()
        E.set_clock(clock)
        box = [0.0]
        st = S.adaptive(lambda c: box[0], window_s=W, target_success=cfg["target"],
                        min_multiplier=cfg["min"], max_multiplier=cfg["max"], clock=E.v_monotonic)
        for i in range(n):
            if every_ok and i % every_ok == 0:
                st.record_success()
            else:
                st.record_failure(ErrorClass.TRANSIENT)
            if spread and i % 1000 == 999:
                clock.now += W / 64
        for fb in (0.0, 0.125, 5.0, -1.0):
            box[0] = fb
            res["execs"] += 1
            case = ("adaptive-long", cfg["target"], cfg["min"], cfg["max"], n, every_ok, spread, fb)
            res["nontrivial"].add(hash(case))
            try:
                v = st(ctx)
            except Exception as e:  # noqa: BLE001
                add_violation(res, "c18.raises", f"{case} raised {type(e).__name__}: {e}", cfg,
                              "adaptive", case)
                continue
            lo, hi = sorted((fb * cfg["min"], fb * cfg["max"]))
            res["outcomes"].add(("adaptive-long", n > 4096, v == fb * cfg["max"]))
            if not (isinstance(v, (int, float)) and math.isfinite(v) and lo - 1e-12 <= v <= hi + 1e-12):
                add_violation(res, "c18.envelope",
                              f"adaptive after {n} recorded events (success every {every_ok}, "
                              f"spread={spread}): fallback {fb} scaled to {v!r}, outside "
                              f"[{cfg['min']}, {cfg['max']}] x fallback", cfg, "adaptive", case)
    res["samples"].append({"events": 5000, "cfg": cfg})
    return res


def run_task(task, seed):
    fam = task["family"]
    if fam == "adaptive-long":
        return run_adaptive_long(task, seed)
    if fam == "envelope":
        return run_envelope(task, seed)
    if fam == "retry-after-or":
        return run_retry_after_or(task, seed)
    return run_adaptive(task, seed)


def replay(doc):
    class W:
        trace = [("case", doc["choices"])]
    task = {"family": {"adaptive": "adaptive", "retry_after_or": "retry-after-or"}.get(
        doc["entry"], "envelope"), "cfg": doc["cfg"], "bound": 9, "tier": "thorough"}
    r = run_task(task, 0)
    hits = [v for v in r["violations"] if v["key"] == doc["key"]]
    return W, [(v["key"], v["msg"]) for v in hits]
