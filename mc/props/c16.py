"""C16 - sleep-handler protocol: SLEEP sleeps, DEFER schedules, ABORT aborts."""

from __future__ import annotations

import itertools

from ..kernel import Chooser
from ..lazy import seq
from ..seqcheck import explore_task
from ..spec import attempts
from ..tracelib import split_calls

PID = "C16"
SYNC = ["Retry.call", "Retry.execute", "Policy.call", "RetryPolicy.execute"]
ASYNC = ["AsyncRetry.call", "AsyncRetry.execute", "AsyncPolicy.execute", "AsyncRetryPolicy.call"]
PLACES = [None, "policy", "call", "both"]

META = {
    "level": "model_checking",
    "engine": "E1 seq",
    "rule": ("all sequences of handler decisions {SLEEP, DEFER, ABORT} across the retries of a "
             "run (free) x all outcome sequences over {failure by exception, failure by result, "
             "success} x all 64 placements of (handler, before_sleep, sleeper) in {neither, "
             "policy level, call level, both} with distinct stub identities x sync / async with "
             "plain callbacks / async with awaitable before_sleep and sleeper; distinct = (end "
             "kind, reason, attempts, failure sequence)"),
    "assumptions": ["attempt_timeout_s=None", "no abort predicate and no deadline in this family, "
                    "so SLEEP must be followed by the next attempt"],
    "min_outcomes": {"quick": 6},
}


def bounds(tier):
    return {"max_attempts": 4 if tier == "quick" else 5, "placements": 64}


def tasks(tier):
    out = []
    M = 4 if tier == "quick" else 5
    for hd, bs, sl in itertools.product(PLACES, PLACES, PLACES):
        base = dict(M=M, alphabet=["x:T", "ok", "r:T"], handler=hd, before_sleep=bs, sleeper=sl,
                    handler_free=True, max_unknown=None, strat_menu=[1, 0], strat_free=True)
        for e in SYNC:
            out.append({"family": "protocol", "cfg": base, "entry": e, "bound": 0})
        for e in ASYNC:
            out.append({"family": "protocol", "cfg": base, "entry": e, "bound": 0})
            out.append({"family": "protocol-awaitable",
                        "cfg": dict(base, bs_async=True, sleeper_async=True, suspend=True),
                        "entry": e, "bound": 0})
    for hd, bs, sl in itertools.product([None, "policy"], [None, "policy"], [None, "policy"]):
        base = dict(M=3, alphabet=["x:T", "ok", "r:T"], handler=hd, before_sleep=bs, sleeper=sl,
                    handler_free=True, max_unknown=None, strat_menu=[1, 0], strat_free=True)
        for e in ["RetryPolicySet.call", "RetryPolicySet.execute", "AsyncRetryPolicySet.call",
                  "RetrySet.execute", "AsyncRetrySet.call"]:
            out.append({"family": "protocol-assigned", "cfg": base, "entry": e, "bound": 0})
    # context-manager entry points with callbacks bound on the context
    CTX = ["Policy.context", "Retry.context", "RetryPolicy.context", "AsyncPolicy.context",
           "AsyncRetry.context", "AsyncRetryPolicy.context"]
    for hd, bs, sl, e in itertools.product(PLACES, [None, "policy", "call"], PLACES[1:], CTX):
        base = dict(M=3, alphabet=["x:T", "ok", "r:T"], handler=hd, before_sleep=bs, sleeper=sl,
                    handler_free=True, max_unknown=None, strat_menu=[1, 0], strat_free=True)
        out.append({"family": "protocol-context", "cfg": base, "entry": e, "bound": 0})
    # callbacks that are callable *objects* whose truth value is False
    for hd, bs, sl, e in itertools.product(["call", "both", "policy"], [None, "call", "both"],
                                           ["call", "both", "policy"], SYNC + ASYNC):
        base = dict(M=3, alphabet=["x:T", "ok", "r:T"], handler=hd, before_sleep=bs, sleeper=sl,
                    handler_free=True, max_unknown=None, callable_kind="falsy")
        out.append({"family": "protocol-falsy-callables", "cfg": base, "entry": e, "bound": 0})
    # the same on the virtual event loop: awaitable hooks really suspend (one loop iteration)
    for hd, bs, e in itertools.product([None, "call"], ["call", "policy"], ASYNC):
        cfg = dict(M=3, alphabet=["x:T", "ok", "r:T"], handler=hd, before_sleep=bs, sleeper="call",
                   handler_free=True, max_unknown=None, bs_async=True, sleeper_async=True,
                   loop=True)
        out.append({"family": "protocol-awaitable-loop", "cfg": cfg, "entry": e, "bound": 0})
    # awaitables that are not coroutines (objects with __await__)
    for hd, e in itertools.product([None, "call", "policy"], ASYNC):
        cfg = dict(M=3, alphabet=["x:T", "ok", "r:T"], handler=hd, before_sleep="call",
                   sleeper="call" if hd != "policy" else "policy", handler_free=True,
                   max_unknown=None, bs_async=True, sleeper_async=True, awaitable="object",
                   suspend=True)
        out.append({"family": "protocol-awaitable-object", "cfg": cfg, "entry": e, "bound": 0})
    # the handler itself takes time and a deadline is configured: DEFER / ABORT keep their meaning
    for e in SYNC[:2] + ASYNC[:2]:
        cfg = dict(M=3, alphabet=["x:T", "ok", "r:T"], handler="call", handler_free=True,
                   handler_durs=[0, 2, 5], deadline=4, durs=[0, 1], max_unknown=None,
                   strat_menu=[1, 0, 9], before_sleep="call")
        out.append({"family": "protocol-slow-handler", "cfg": cfg, "entry": e, "bound": 2})
    # before_sleep raising (at one invocation or always) must not change the protocol
    for hd, e, idx, bs_async in itertools.product([None, "call"], SYNC[:2] + ASYNC[:2],
                                                  [0, 1, "always"], [False, True]):
        if bs_async and not e.startswith("Async"):
            continue
        cfg = dict(M=3, alphabet=["x:T", "ok", "r:T"], handler=hd, handler_free=True,
                   before_sleep="call", bs_async=bs_async, max_unknown=None,
                   faults=[("before_sleep", idx, "RuntimeError")])
        out.append({"family": "protocol-hook-fault", "cfg": cfg, "entry": e, "bound": 0})
    # invalid handler return value must not be taken for a decision
    cfg = dict(M=3, alphabet=["x:T"], handler="call", handler_menu=["BAD"], max_unknown=None)
    for e in ["Retry.call", "AsyncRetry.call"]:
        out.append({"family": "protocol-bad", "cfg": cfg, "entry": e, "bound": 0})
    # an abort predicate is configured (it never fires) and the delays are long
    for hd, e in itertools.product([None, "call"], SYNC + ASYNC):
        cfg = dict(M=3, alphabet=["x:T", "ok", "r:T"], handler=hd, handler_free=True, abort=True,
                   max_unknown=None, strat_menu=[9, 20, 41], strat_free=True, before_sleep="call",
                   sleeper="call")
        out.append({"family": "protocol-abort-configured", "cfg": cfg, "entry": e, "bound": 0})
    # callbacks that are stateful callable objects, through every way of building the policy
    for hd, e in itertools.product(["policy", "call"], ["RetryCfg.call", "AsyncRetryCfg.execute", "RetryPolicyCfg.execute",
                                                        "AsyncRetryPolicyCfg.call", "Retry.call", "RetryPolicy.execute", "deco",
                                                        "AsyncRetryPolicySet.call"]):
        cfg = dict(M=3, alphabet=["x:T", "ok", "r:T"], handler=hd if e != "deco" else "policy", handler_free=True,
                   max_unknown=None, before_sleep=hd if e != "deco" else "policy", sleeper=hd if e != "deco" else "policy",
                   callable_kind="stateful")
        out.append({"family": "protocol-stateful-callables", "cfg": cfg, "entry": e, "bound": 0})
    # a circuit breaker is attached: DEFER through the Policy layer still reports the delay
    BRKC = {"threshold": 3, "window": 8, "recovery": 2, "trip_on": ["T", "U", "P"]}
    for e in ["Policy.execute", "AsyncPolicy.execute", "RetryPolicy.execute", "Policy.call", "AsyncPolicy.call"]:
        cfg = dict(M=3, alphabet=["x:T", "ok", "r:T"], handler="call", handler_free=True,
                   max_unknown=None, breaker=BRKC, before_sleep="call", sleeper="call",
                   strat_menu=[1, 3], strat_free=True)
        out.append({"family": "protocol-with-breaker", "cfg": cfg, "entry": e, "bound": 0})
    # callbacks that are callable objects which also happen to have an attribute called "sleep"
    for hd, e in itertools.product(["policy", "call"], SYNC + ASYNC):
        cfg = dict(M=3, alphabet=["x:T", "ok", "r:T"], handler=hd, handler_free=True, max_unknown=None,
                   before_sleep=hd, sleeper=hd, callable_kind="clocklike")
        out.append({"family": "protocol-clocklike-callables", "cfg": cfg, "entry": e, "bound": 0})
    # one @retry(...) decorator object shared by a sync and an async function
    for e, aw in itertools.product(["adeco", "deco"], [True, False]):
        if aw and e == "deco":
            continue
        cfg = dict(M=3, alphabet=["x:T", "ok", "r:T"], handler="policy", handler_free=True,
                   max_unknown=None, before_sleep="policy", sleeper="policy", deco_shared=True,
                   bs_async=aw, sleeper_async=aw, suspend=aw)
        out.append({"family": "protocol-shared-decorator", "cfg": cfg, "entry": e, "bound": 0})
    # failures carrying a Retry-After hint longer than the delay of a strategy that does not look
    # at hints: handler, before_sleep and sleeper all see the strategy's delay
    for st, e in itertools.product([{"default": "legacy", "per": {}}, {"default": "ctx", "per": {"R": "legacy"}}],
                                   SYNC + ASYNC):
        cfg = dict(M=3, alphabet=["x:R+ra", "ok", "r:R+ra", "x:T+ra"], ra_ticks=9, handler="call",
                   handler_free=True, max_unknown=None, strat=st, strat_menu=[1, 3], strat_free=True,
                   before_sleep="call", sleeper="call", deadline=40)
        out.append({"family": "protocol-hint-ignored", "cfg": cfg, "entry": e, "bound": 0})
    # delays that are not whole microseconds: DEFER reports exactly the computed delay
    for e in SYNC + ASYNC:
        cfg = dict(M=3, alphabet=["x:T", "ok", "r:T"], handler="call", handler_free=True,
                   max_unknown=None, strat_menu=[1.0000003, 0.0000031], strat_free=True,
                   before_sleep="call", sleeper="call")
        out.append({"family": "protocol-fractional-delay", "cfg": cfg, "entry": e, "bound": 0})
    return out


def effective(place):
    if place in ("call", "both"):
        return "call"
    if place == "policy":
        return "policy"
    return None


def monitor(w, cfg):
    v = []
    eh = effective(cfg["handler"])
    eb = effective(cfg["before_sleep"])
    es = effective(cfg["sleeper"]) or "default"
    M = cfg["M"]
    for r in w.trace:
        if r[0] == "overlap":
            v.append(("c16.sleep-sequence", r[1]))
        elif r[0] == "wrong_entry":
            v.append(("c16.callback-identity", r[1]))
        elif r[0] == "copied_callback":
            v.append(("c16.callback-identity", f"the library called a copy of the caller's "
                                               f"callback object ({r[1]}), not the object itself"))
    for call in split_calls(w.trace):
        end = call.end
        atts = list(attempts(cfg, call))
        for a in atts:
            if not a.op.failed:
                if a.handlers or a.bsleeps or a.sleeps:
                    v.append(("c16.spurious", f"handler/sleep activity after {a.op.label}"))
                continue
            if not a.retries:
                if a.handlers or a.bsleeps or a.sleeps:
                    v.append(("c16.spurious", f"handler/sleep activity without a granted retry "
                                              f"after attempt {a.i}"))
                continue
            delay = a.retries[0][3]
            seq_kinds = [r[0] for r in a.seg if r[0] in ("handler", "bsleep", "sleep")]
            if eh is None:
                if a.handlers:
                    v.append(("c16.handler-unexpected", "a handler was consulted but none is configured"))
                decision = "SLEEP"
            else:
                if len(a.handlers) != 1:
                    v.append(("c16.handler-count", f"handler consulted {len(a.handlers)} times for "
                                                   f"the retry after attempt {a.i}"))
                    continue
                h = a.handlers[0]
                if h[1] != eh:
                    v.append(("c16.handler-override", f"{h[1]}-level handler consulted, the "
                                                      f"effective one is {eh}-level"))
                if h[2] != a.i or h[3] != delay:
                    v.append(("c16.handler-args", f"handler got (attempt={h[2]}, delay={h[3]}), "
                                                  f"expected ({a.i}, {delay})"))
                decision = h[4]
            if decision == "BAD":
                if a.sleeps or not a.last or (end is not None and end[1] != "raise"):
                    v.append(("c16.bad-decision", "an invalid handler return value was acted upon"))
                continue
            if decision == "SLEEP":
                want = (["handler"] if eh else []) + (["bsleep"] if eb else []) + ["sleep"]
                if seq_kinds != want:
                    v.append(("c16.sleep-sequence", f"after SLEEP the callbacks ran as {seq_kinds},"
                                                    f" expected {want}"))
                    continue
                if eb:
                    b = a.bsleeps[0]
                    if b[1] != eb:
                        v.append(("c16.before-sleep-override", f"{b[1]}-level before_sleep ran, "
                                                               f"effective is {eb}-level"))
                    if b[2] != a.i or b[3] != delay:
                        v.append(("c16.before-sleep-args", f"before_sleep got {b[2:4]}, expected "
                                                           f"({a.i}, {delay})"))
                s = a.sleeps[0]
                if s[1] != es:
                    v.append(("c16.sleeper-override", f"sleeper {s[1]!r} used, effective is {es!r}"))
                if s[2] != delay:
                    v.append(("c16.sleeper-arg", f"sleeper got {s[2]}, delay is {delay}"))
                if a.last and a.i < M and cfg["deadline"] is None:
                    v.append(("c16.no-next-attempt", f"SLEEP after attempt {a.i} was not followed "
                                                     f"by another attempt"))
                continue
            # DEFER / ABORT
            if a.bsleeps or a.sleeps:
                v.append(("c16.slept-on-" + decision.lower(), f"{decision}: before_sleep/sleeper ran"))
            if not a.last:
                v.append(("c16.attempt-after-" + decision.lower(), f"{decision}: another attempt ran"))
            if end is None:
                continue
            want_reason = "SCHEDULED" if decision == "DEFER" else "ABORTED"
            if end[1] == "outcome":
                if end[2] or end[4] != want_reason:
                    v.append(("c16.ending", f"{decision} ended with ok={end[2]} reason={end[4]}"))
                nxt = end[10]
            elif end[1] == "raise":
                if decision == "ABORT":
                    if end[2] != "AbortRetryError":
                        v.append(("c16.ending", f"ABORT ended by raising {end[2]}"))
                    continue
                if end[2] != "RetryExhaustedError" or end[4][0] != "SCHEDULED":
                    v.append(("c16.ending", f"DEFER ended by raising {end[2]} {end[4]}"))
                    continue
                nxt = end[4][5]
            else:
                v.append(("c16.ending", f"{decision} ended with {end[:3]}"))
                continue
            if decision == "DEFER" and nxt != delay:
                v.append(("c16.next-sleep", f"DEFER: next_sleep_s={nxt}, delay {delay}"))
            if decision == "ABORT" and nxt is not None:
                v.append(("c16.next-sleep", f"ABORT: next_sleep_s={nxt}"))
    return v


def run_plain(cfg, entry, ch):
    full = seq.mkcfg(**cfg)
    w = seq.World(full, ch)
    w.call(entry)
    return w, monitor(w, full)


def run_task(task, seed):
    return explore_task(task, seed, run_plain)


def replay(doc):
    return run_plain(doc["cfg"], doc["entry"], Chooser(tuple(doc["choices"])))
