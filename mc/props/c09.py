"""C09 - one breaker record per policy call, by final outcome, not per attempt."""

from __future__ import annotations

import itertools

from ..final import analyse
from ..kernel import Chooser
from ..lazy import seq
from ..seqcheck import explore_task
from ..tracelib import split_calls

PID = "C09"
WITH_RETRY = ["Policy.call", "Policy.execute", "AsyncPolicy.call", "AsyncPolicy.execute",
              "RetryPolicy.call", "AsyncRetryPolicy.execute"]
NO_RETRY = ["Policy0.call", "Policy0.execute", "AsyncPolicy0.call", "AsyncPolicy0.execute"]
ALPHA = ["ok", "x:T", "x:U", "x:P", "r:T", "r:P", "abort", "cancel"]

META = {
    "level": "model_checking",
    "engine": "E1 seq",
    "rule": ("Policy/AsyncPolicy x call/execute x with/without retry (plus RetryPolicy sugar): "
             "every outcome sequence within a call (free) x every stop reason (abort polls, "
             "handler decisions, deadline, caps as bounded deviations) x sequences of <= 3 calls "
             "with clock advances sharing one spy breaker (a logging subclass of the real "
             "CircuitBreaker); distinct = (end kind, reason, attempts, failure sequence)"),
    "assumptions": ["attempt_timeout_s=None",
                    "endings the statement does not classify (nested CircuitOpenError / "
                    "RetryExhaustedError, raising callbacks): any single record accepted"],
    "min_outcomes": {"quick": 10},
}


def bounds(tier):
    return {"max_attempts": 3, "calls": 3 if tier == "thorough" else 2,
            "deviation_bound": 1 if tier == "quick" else 2}


def tasks(tier):
    out = []
    bound = 1 if tier == "quick" else 2
    for M, pc, mu, dl, thr in itertools.product([1, 2, 3], [{}, {"T": 1}], [None, 0], [None, 3],
                                                [1, 3]):
        cfg = dict(M=M, per_class=pc, max_unknown=mu, deadline=dl, alphabet=ALPHA, durs=[0, 2],
                   abort=True, handler="call", strat_menu=[1, 9],
                   breaker={"threshold": thr, "window": 8, "recovery": 2,
                            "trip_on": ["T", "U", "P"]})
        for e in WITH_RETRY:
            out.append({"family": "records", "cfg": cfg, "entry": e, "bound": bound, "ncalls": 1,
                        "weight": M})
    for e, thr in itertools.product(NO_RETRY, [1, 2]):
        cfg = dict(M=1, alphabet=["ok"] + [f"x:{k}" for k in "TUPR"] + ["abort", "cancel", "kbd"],
                   abort=True, breaker={"threshold": thr, "window": 8, "recovery": 2,
                                        "trip_on": ["T", "U", "P"]})
        out.append({"family": "records-noretry", "cfg": cfg, "entry": e, "bound": 1, "ncalls": 3})
    for e, thr in itertools.product(WITH_RETRY + NO_RETRY, [1, 3]):
        cfg = dict(M=2, alphabet=["ok", "x:R+ra", "timeout", "x:T"], max_unknown=None, ra_ticks=1,
                   breaker={"threshold": thr, "window": 8, "recovery": 2, "trip_on": ["T", "R"]})
        out.append({"family": "records-classification", "cfg": cfg, "entry": e, "bound": 0,
                    "ncalls": 2})
    for e, thr in itertools.product(WITH_RETRY[:4] + NO_RETRY, [1, 3]):
        cfg = dict(M=2, alphabet=["ok", "x:T", "coe", "nested", "kbd", "genexit", "xc:P", "xc:T"],
                   max_unknown=None,
                   breaker={"threshold": thr, "window": 8, "recovery": 2, "trip_on": ["T", "U", "P"]})
        out.append({"family": "records-unclassified", "cfg": cfg, "entry": e, "bound": 0, "ncalls": 2})
        for site, idx in itertools.product(["classifier", "aend", "strategy"], [0, 1]):
            cfg2 = dict(cfg, alphabet=["ok", "x:T", "x:P"], faults=[(site, idx, "KeyError")],
                        attempt_hooks="call")
            out.append({"family": "records-faults", "cfg": cfg2, "entry": e, "bound": 0, "ncalls": 1})
    # a callback raises on its second invocation, after an attempt of another class was retried
    for e, site in itertools.product(["Policy.call", "AsyncPolicy.call", "RetryPolicy.call", "Policy.context"],
                                     ["strategy", "sleeper", "astart", "rclassifier"]):
        cfg = dict(M=3, alphabet=["x:T", "ok", "x:R", "r:S"], max_unknown=None, attempt_hooks="call",
                   force_rc=True, faults=[(site, 1 if site != "rclassifier" else 2, "KeyError")],
                   breaker={"threshold": 3, "window": 8, "recovery": 2, "trip_on": ["T", "U", "P", "R", "S"]})
        out.append({"family": "records-late-callback-fault", "cfg": cfg, "entry": e, "bound": 0, "ncalls": 1})
    # policy.circuit_breaker is re-assigned (detached / swapped) during the call: the breaker that
    # admitted the call still gets exactly its one record
    for e, thr in itertools.product(WITH_RETRY[:4] + NO_RETRY, [1, 3]):
        cfg = dict(M=2 if e in WITH_RETRY else 1, alphabet=["ok", "x:T", "x:P"] + (["r:T"] if e in WITH_RETRY else []),
                   max_unknown=None, repoint=True,
                   breaker={"threshold": thr, "window": 8, "recovery": 2, "trip_on": ["T", "U", "P"]})
        out.append({"family": "records-repointed", "cfg": cfg, "entry": e, "bound": 1, "ncalls": 1})
    # the sleep handler takes time, so the deadline can pass while it decides
    for e in WITH_RETRY[:4]:
        cfg = dict(M=3, alphabet=["ok", "x:T", "r:T"], handler="call", handler_durs=[0, 2, 4],
                   deadline=3, durs=[0, 1], max_unknown=None, strat_menu=[1],
                   breaker={"threshold": 1, "window": 8, "recovery": 2, "trip_on": ["T", "U", "P"]})
        out.append({"family": "records-slow-handler", "cfg": cfg, "entry": e, "bound": 2, "ncalls": 1})
    # interruption classes that also derive from Exception; the task cancelled before it starts
    for e, thr in itertools.product(WITH_RETRY + NO_RETRY, [1, 3]):
        cfg = dict(M=2 if e in WITH_RETRY else 1, alphabet=["ok", "x:T", "hyb:cancel", "hyb:kbd", "hyb:exit"],
                   max_unknown=None,
                   breaker={"threshold": thr, "window": 8, "recovery": 2, "trip_on": ["T", "U", "P"]})
        out.append({"family": "records-hybrid-cancel", "cfg": cfg, "entry": e, "bound": 0, "ncalls": 2})
    for e in [x for x in WITH_RETRY + NO_RETRY if x.startswith("Async")]:
        cfg = dict(M=2, alphabet=["ok", "x:T"], suspend=True, inject_start=True, max_unknown=None,
                   breaker={"threshold": 1, "window": 8, "recovery": 2, "trip_on": ["T", "U", "P"]})
        out.append({"family": "records-never-started", "cfg": cfg, "entry": e, "bound": 1, "ncalls": 2})
    # the classifier is a callable rule table whose len() is 0 (a falsy object)
    for e, thr in itertools.product(WITH_RETRY, [1, 3]):
        cfg = dict(M=2, alphabet=["ok", "x:T", "xsc:T", "xsc:S", "r:T", "x:P"], max_unknown=None, classifier_kind="falsy",
                   breaker={"threshold": thr, "window": 8, "recovery": 2, "trip_on": ["T", "S", "P"]})
        out.append({"family": "records-falsy-classifier", "cfg": cfg, "entry": e, "bound": 0, "ncalls": 2})
    # on the virtual event loop with attempt_timeout_s: Task.cancel() between any two loop
    # iterations, including while a timed-out attempt is still cleaning up
    for e, uw in itertools.product(["AsyncPolicy.call", "AsyncPolicy.execute", "AsyncPolicy0.call"], [0, 1]):
        cfg = dict(M=2 if "0" not in e else 1, alphabet=["ok", "x:T"], loop=True, attempt_timeout=2,
                   durs=[0, 3], dur_free=True, inject=["cancel"], unwind_ticks=uw, sleeper="call",
                   sleeper_async=True, max_unknown=None,
                   breaker={"threshold": 1, "window": 8, "recovery": 2, "trip_on": ["T", "U", "P"]})
        out.append({"family": "records-task-cancel", "cfg": cfg, "entry": e, "bound": 1, "ncalls": 1})
    # the final failure is a rejected None result
    for e, thr in itertools.product(WITH_RETRY, [1, 3]):
        cfg = dict(M=2, alphabet=["ok", "rn:T", "rn:P", "x:U", "r:T"], force_rc=True, max_unknown=None,
                   breaker={"threshold": thr, "window": 8, "recovery": 2, "trip_on": ["T", "U", "P"]})
        out.append({"family": "records-none-result", "cfg": cfg, "entry": e, "bound": 0, "ncalls": 2})
    # overlapping calls on one Policy object: while call A is inside a callback (attempt-end
    # hook, metric hook, strategy) a whole call B with a different final class runs through the
    # same policy; A must still report its own final class
    for site, e, script in itertools.product(["aend", "metric", "strategy"],
                                             ["Policy.call", "Policy.execute", "AsyncPolicy.call",
                                              "AsyncPolicy.execute"],
                                             [["x:P"], ["x:U", "x:U", "x:U"], ["ok"]]):
        cfg = dict(M=3, alphabet=["ok", "x:T", "x:P", "r:T"], max_unknown=1, attempt_hooks="call",
                   nest={"site": site, "entry": e, "script": script},
                   breaker={"threshold": 5, "window": 8, "recovery": 2, "trip_on": ["T", "U", "P"]})
        out.append({"family": "records-reentrant", "cfg": cfg, "entry": e, "bound": 1, "ncalls": 1})
    # the call is the half-open probe and an observability hook lets a cancellation-type
    # exception escape while the admission is announced: still exactly one record
    PROBE = {"threshold": 1, "window": 8, "recovery": 2, "trip_on": ["T", "U", "P"],
             "pre": [("fail", "T"), ("tick", 2)]}
    CLOSED1 = {"threshold": 1, "window": 8, "recovery": 2, "trip_on": ["T", "U", "P"]}
    for e, site, t in itertools.product(WITH_RETRY + NO_RETRY + ["RetryPolicy.call", "Policy.context"],
                                        ["metric", "log"],
                                        ["KeyboardInterrupt", "CancelledError", "SystemExit"]):
        cfg = dict(M=2 if e not in NO_RETRY else 1, alphabet=["ok", "x:T"], max_unknown=None,
                   breaker=PROBE, faults=[(site, 0, t)])
        out.append({"family": "records-admission-hook-fault", "cfg": cfg, "entry": e, "bound": 0,
                    "ncalls": 1})
        # ... or while a later event is announced: a retry event, the terminal event, the
        # circuit_closed / circuit_opened event that follows the call's own record
        for idx, brk in itertools.product([1, 2, 3], [PROBE, CLOSED1]):
            cfg = dict(M=2 if e not in NO_RETRY else 1, alphabet=["ok", "x:T"], max_unknown=None,
                       breaker=brk, faults=[(site, idx, t)])
            out.append({"family": "records-event-hook-fault", "cfg": cfg, "entry": e, "bound": 0,
                        "ncalls": 1})
    # an exception instance that went through one policy's retry loop (whose classifier called it
    # S / T) is raised again, untouched, in a call through a retry-less policy on the same breaker
    for e1, e2, k in itertools.product(["Policy.call", "Policy.execute", "AsyncPolicy.call"],
                                       NO_RETRY, ["S", "T"]):
        cfg = dict(M=1, alphabet=["same", "ok"], script_prefix=[f"xsc:{k}"], max_unknown=None,
                   breaker={"threshold": 5, "window": 8, "recovery": 2, "trip_on": ["T", "U", "P", "S"]})
        out.append({"family": "records-travelling-exception", "cfg": cfg, "entry": e1, "bound": 0,
                    "ncalls": 2, "entries": [e1, e2]})
    # call sequences sharing one breaker (rejections, probes)
    n = 2 if tier == "quick" else 3
    for e, thr in itertools.product(WITH_RETRY[:4], [1, 2]):
        cfg = dict(M=2, alphabet=["ok", "x:T", "r:T", "x:P", "abort"], max_unknown=None,
                   breaker={"threshold": thr, "window": 8, "recovery": 2,
                            "trip_on": ["T", "P"]})
        out.append({"family": "records-seq", "cfg": cfg, "entry": e, "bound": 0, "ncalls": n + 1,
                    "weight": 6})
    return out


def monitor(w, cfg):
    v = []
    for nt in getattr(w, "nested_traces", ()):
        v.extend(_monitor_trace(nt, cfg))
    v.extend(_monitor_trace(w.trace, cfg))
    return v


def _monitor_trace(trace, cfg):
    v = []
    for call in split_calls(trace):
        end = call.end
        if end is None:
            continue
        brk = [r for r in call.records if r[0] == "brk"]
        allows = [r for r in brk if r[1] == "allow"]
        records = [r for r in brk if r[1] != "allow"]
        pre_abort = (call.entry.split(".")[0].endswith("0")
                     and any(r[0] == "poll" and r[1] for r in call.pre))
        if pre_abort:
            continue  # never admitted: the pre-flight abort of a retry-less policy (see C07, F6b)
        if any(r[0] == "susp" and r[1] == "not-started" for r in call.records):
            # the coroutine was closed before its first step: it cannot have been admitted, and an
            # admission without a record would be a leak
            if allows and not records:
                v.append(("c09.record-count", "a call that never started was admitted "
                                              f"({allows[0][3]}) and made no breaker record"))
            continue
        if (not allows and not records and not call.ops and call.end is not None
                and call.end[1] == "raise" and call.end[2] == "CancelledError"):
            continue   # the task was cancelled before its first step (virtual loop): never admitted
        if len(allows) != 1:
            v.append(("c09.allow-count", f"allow() consulted {len(allows)} times for one call"))
            continue
        if not allows[0][3][0]:
            if records:
                v.append(("c09.record-on-rejection", f"rejected call made records {records}"))
            if call.ops:
                v.append(("c09.invoked-on-rejection", "operation invoked although rejected"))
            continue
        fin = analyse(cfg, call)
        if len(records) != 1:
            v.append(("c09.record-count", f"admitted call made {len(records)} breaker records "
                                          f"{[(r[1], r[2]) for r in records]}; ops="
                                          f"{[o.label for o in call.ops]} end={end[1:3]}"))
            continue
        rec = records[0]
        # the record must come after the last invocation
        idx_rec = call.records.index(rec)
        idx_op = max((i for i, r in enumerate(call.records) if r[0] == "op"), default=-1)
        if idx_rec < idx_op:
            v.append(("c09.record-before-end", f"breaker record {rec[1]} made while the call was "
                                               f"still going on"))
        if fin.faulted and end[1] == "raise" and rec[1] == "failure" \
                and isinstance(end[3], str) and end[3].startswith("foreign:"):
            # call() ended with a callback's own exception (the strategy, the sleeper, a hook, the
            # result classifier raised): if that ending is recorded as a failure, it is a failure
            # of the class the classifier gives *that* exception - not of an earlier attempt's
            flt = [r for r in call.records if r[0] == "fault"]
            if flt and all(r[1] in ("strategy", "sleeper", "astart", "rclassifier", "handler")
                           and r[3] in ("KeyError", "RuntimeError", "ValueError") for r in flt):
                if rec[2] != "U":
                    v.append(("c09.wrong-record",
                              f"call() ended by raising {end[2]} (from the {flt[-1][1]} callback) "
                              f"after {[o.label for o in call.ops]}: breaker got {(rec[1], rec[2])}"
                              f", the classifier calls that exception UNKNOWN"))
        if fin.nested or fin.faulted or (fin.last is not None and fin.last.kind in ("coe", "genexit")):
            continue
        if any(r[0] == "fault" and r[1] in ("metric", "log")
               and r[3] in ("KeyboardInterrupt", "CancelledError", "SystemExit") for r in call.records):
            # an observability hook let a cancellation-type exception escape: the call ends as
            # cancelled, but its own outcome may have been reported already (only the count is
            # judged)
            continue
        delivered_ok = (end[1] == "ret") or (end[1] == "outcome" and end[2])
        if delivered_ok:
            want = ("success", None)
        elif fin.cancelled or fin.aborted or any(r[0] == "thrown" for r in call.records) \
                or end[1] == "closed":
            want = ("cancel", None)
        elif fin.last is not None and fin.last.failed:
            want = ("failure", fin.last.klass)
            if call.entry.split(".")[0].endswith("0") and any(
                    r[0] == "stringcode" and r[1] == fin.last.n for r in call.records):
                # a retry-less policy classifies with the built-in classifier, which calls an
                # exception with a string code and no status UNKNOWN - whatever another policy's
                # classifier said about the same instance earlier
                want = ("failure", "U")
        else:
            continue
        if (rec[1], rec[2]) != want:
            v.append(("c09.wrong-record", f"call ended {end[1:5]} after {[o.label for o in call.ops]}"
                                          f": breaker got {(rec[1], rec[2])}, expected {want}"))
    return v


def run_multi(cfg, entry, ch, ncalls, entries=None):
    full = seq.mkcfg(**cfg)
    w = seq.World(full, ch)
    for k in range(ncalls):
        if k:
            t = (0, 2)[ch.choose("tick", 2, True)]
            if t:
                w.tick(t)
        w.call(entries[k] if entries else entry)
    return w, monitor(w, full)


def run_task(task, seed):
    n = task["ncalls"]
    ents = task.get("entries")
    return explore_task(task, seed, lambda cfg, e, ch: run_multi(cfg, e, ch, n, ents))


def replay(doc):
    n = doc["extra"]["ncalls"]
    return run_multi(doc["cfg"], doc["entry"], Chooser(tuple(doc["choices"])), n,
                     doc["extra"].get("entries"))
