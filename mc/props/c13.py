"""C13 - abort and cancellation stop work immediately and are never retried."""

from __future__ import annotations

import itertools

from ..kernel import Chooser
from ..lazy import seq
from ..seqcheck import explore_task
from ..tracelib import split_calls

PID = "C13"
Q4 = ["Retry.call", "Retry.execute", "AsyncRetry.call", "AsyncRetry.execute"]
POL = ["Policy.call", "Policy.execute", "AsyncPolicy.call", "AsyncPolicy.execute"]
POL0 = ["Policy0.call", "Policy0.execute", "AsyncPolicy0.call", "AsyncPolicy0.execute"]
ASYNC = ["AsyncRetry.call", "AsyncRetry.execute", "AsyncPolicy.call", "AsyncPolicy.execute",
         "AsyncRetryPolicy.call", "AsyncRetry.context"]
ALPHA = ["ok", "x:T", "r:T", "abort", "kbd", "exit", "cancel"]
CANCEL = {"kbd": "KeyboardInterrupt", "exit": "SystemExit", "cancel": "CancelledError"}

META = {
    "level": "model_checking",
    "engine": "E1 seq + E3 coro (single task)",
    "rule": ("every abort-poll answer vector (a True answer ends the run, so one deviation covers "
             "all vectors) x every outcome sequence over {ok, failures, AbortRetryError, "
             "KeyboardInterrupt, SystemExit, CancelledError} x sleeper raising a cancellation-type "
             "exception at each sleep x handler on/off; async: CancelledError / KeyboardInterrupt / "
             "close() injected at every suspension point (operation, awaitable before_sleep, "
             "awaitable sleeper); distinct = (end kind, reason, attempts, failure sequence)"),
    "assumptions": ["attempt_timeout_s=None", "coroutines are driven by hand with send/throw/close; "
                    "no event loop semantics beyond that are modelled"],
    "min_outcomes": {"quick": 10},
}


def bounds(tier):
    return {"max_attempts": 3 if tier == "quick" else 4, "injections_per_run": 1 if tier == "quick" else 2}


def tasks(tier):
    out = []
    M = 3 if tier == "quick" else 4
    for hd, sl, e in itertools.product([None, "call"], ["call", None], Q4 + POL):
        cfg = dict(M=M, alphabet=ALPHA, abort=True, handler=hd, handler_menu=["SLEEP"],
                   sleeper=sl, overshoot=[0, "KeyboardInterrupt", "CancelledError", "SystemExit"],
                   over_free=True, max_unknown=None, before_sleep="call", strat_menu=[1, 0],
                   strat_free=True)
        out.append({"family": "abort-cancel", "cfg": cfg, "entry": e, "bound": 1, "weight": 3})
    # the abort condition is a flag that becomes true at some point of the run and stays true:
    # no attempt and no sleep may *begin* after that point
    for hd, e in itertools.product([None, "call"], Q4 + POL + ["RetryPolicy.call", "deco", "adeco",
                                                                "Retry.context", "AsyncRetry.context"]):
        cfg = dict(M=M, alphabet=["ok", "x:T", "r:T"], abort=True, abort_mode="flag",
                   handler=hd if "deco" not in e else None, handler_menu=["SLEEP"],
                   sleeper="call" if "deco" not in e else "policy", max_unknown=None,
                   strat_menu=[1, 0], strat_free=True)
        out.append({"family": "abort-flag", "cfg": cfg, "entry": e, "bound": 1, "weight": 2})
    # exception classes that derive from a cancellation type *and* from Exception (a driver's
    # PoolCancelled(CancelledError, RuntimeError)) are still cancellation-type exceptions
    for hd, e in itertools.product([None, "call"], Q4 + POL + POL0 + ["RetryPolicy.call", "deco", "adeco"]):
        cfg = dict(M=M if "0" not in e else 1, alphabet=["ok", "x:T", "hyb:cancel", "hyb:exit", "hyb:kbd"], abort=False,
                   handler=hd if "deco" not in e else None, handler_menu=["SLEEP"],
                   sleeper="call" if "deco" not in e else "policy", max_unknown=None)
        out.append({"family": "cancel-hybrid", "cfg": cfg, "entry": e, "bound": 0})
    # abort_if is a callable object whose truth value is False (an un-set stop token)
    for mode, e in itertools.product(["poll", "flag"], Q4 + POL[:2] + ["RetryPolicy.call", "AsyncRetryPolicy.call", "deco", "adeco", "RetryCfg.call",
                                                      "Retry.context", "AsyncRetry.context"]):
        cfg = dict(M=M, alphabet=["ok", "x:T", "r:T"], abort=True, abort_mode=mode,
                   abort_kind="falsy-object", sleeper="call" if "deco" not in e else "policy",
                   max_unknown=None, strat_menu=[1, 0], strat_free=True)
        out.append({"family": "abort-falsy-token", "cfg": cfg, "entry": e, "bound": 1})
    # abort_if is a callable object that also looks like an Event (is_set / set / wait): it is
    # consulted by calling it
    for mode, e in itertools.product(["answer", "flag"], Q4 + POL[:2] + POL0 + ["RetryPolicy.call", "deco", "adeco",
                                                                        "Retry.context"]):
        cfg = dict(M=M if "0" not in e else 1, alphabet=["ok", "x:T", "r:T"] if "0" not in e else ["ok", "x:T"],
                   abort=True, abort_mode=mode, abort_kind="eventlike",
                   sleeper="call" if "deco" not in e else "policy", max_unknown=None)
        out.append({"family": "abort-eventlike-predicate", "cfg": cfg, "entry": e, "bound": 1})
    # abort_if is a function with an optional parameter of its own: it is called without arguments
    for mode, e in itertools.product(["answer", "flag"], Q4 + POL[:2] + ["RetryPolicy.call", "deco", "adeco"]):
        cfg = dict(M=M, alphabet=["ok", "x:T", "r:T"], abort=True, abort_mode=mode, abort_kind="optarg",
                   sleeper="call" if "deco" not in e else "policy", max_unknown=None)
        out.append({"family": "abort-optional-parameter", "cfg": cfg, "entry": e, "bound": 1})
    # abort_if itself raises an ordinary exception at one poll: whatever becomes of that, the
    # predicate keeps being consulted before every later attempt and sleep
    for idx, e in itertools.product([0, 1, 2], Q4 + POL[:2]):
        cfg = dict(M=4, alphabet=["ok", "x:T", "r:T"], abort=True, faults=[("abort_if", idx, "RuntimeError")],
                   sleeper="call", max_unknown=None)
        out.append({"family": "abort-predicate-fault", "cfg": cfg, "entry": e, "bound": 1})
    # a long-lived context object whose abort_if (and sleeper) are assigned after .context()
    for mode, e in itertools.product(["answer", "flag"], ["Policy.contextset", "Retry.contextset", "RetryPolicy.contextset",
                                                           "AsyncPolicy.contextset", "AsyncRetry.contextset"]):
        cfg = dict(M=M, alphabet=["ok", "x:T", "r:T"], abort=True, abort_mode=mode, sleeper="call",
                   max_unknown=None, strat_menu=[1, 0], strat_free=True)
        out.append({"family": "abort-context-assigned", "cfg": cfg, "entry": e, "bound": 1})
    # a faulty on_attempt_end hook must not get between a cancellation and its propagation
    for idx, e in itertools.product([0, 1, "always"], Q4 + POL):
        cfg = dict(M=M, alphabet=["ok", "x:T", "kbd", "exit", "cancel", "hyb:cancel"], attempt_hooks="call",
                   max_unknown=None, faults=[("aend", idx, "RuntimeError")], sleeper="call")
        out.append({"family": "cancel-with-faulty-end-hook", "cfg": cfg, "entry": e, "bound": 0})
    # the call is the half-open probe of a breaker: cancellation still leaves the call unchanged
    PROBE = {"threshold": 1, "window": 8, "recovery": 2, "trip_on": ["T", "U", "P"],
             "pre": [("fail", "T"), ("tick", 2)]}
    for e in POL + POL0 + ["RetryPolicy.execute"]:
        if e.startswith("RetryPolicy"):
            continue
        cfg = dict(M=M if "0" not in e else 1, alphabet=["ok", "x:T", "kbd", "exit", "cancel", "hyb:cancel"],
                   breaker=PROBE, max_unknown=None, sleeper="call",
                   overshoot=[0, "KeyboardInterrupt", "CancelledError"], over_free=True)
        out.append({"family": "cancel-as-probe", "cfg": cfg, "entry": e, "bound": 0})
    # abort_if answers with a truthy value that is not the literal True
    for mode, e in itertools.product(["answer", "flag"], Q4 + POL[:2]):
        cfg = dict(M=M, alphabet=["ok", "x:T", "r:T"], abort=True, abort_mode=mode, abort_truthy=True,
                   sleeper="call", max_unknown=None, strat_menu=[1, 0], strat_free=True)
        out.append({"family": "abort-truthy", "cfg": cfg, "entry": e, "bound": 1})
    for e in POL0:
        cfg = dict(M=1, alphabet=ALPHA, abort=True)
        out.append({"family": "abort-noretry", "cfg": cfg, "entry": e, "bound": 1})
    # without abort_if: cancellation only (abort_if=None path)
    for e in Q4:
        cfg = dict(M=M, alphabet=ALPHA, abort=False, sleeper=None,
                   overshoot=[0, "KeyboardInterrupt", "CancelledError"], over_free=True,
                   max_unknown=None)
        out.append({"family": "cancel-only", "cfg": cfg, "entry": e, "bound": 0})
    # async: injection at every suspension point
    inj = 1 if tier == "quick" else 2
    for e, bs, hd in itertools.product(ASYNC + ["AsyncPolicy0.call", "AsyncPolicy0.execute"],
                                       [True, False], [None, "call"]):
        cfg = dict(M=3, alphabet=["ok", "x:T", "r:T"], abort=True, suspend=True,
                   inject=["cancel", "kbd", "close"], sleeper="call", sleeper_async=True,
                   before_sleep="call", bs_async=bs, handler=hd, handler_menu=["SLEEP"],
                   max_unknown=None)
        out.append({"family": "async-inject", "cfg": cfg, "entry": e, "bound": inj, "weight": 4})
    # async on the virtual event loop, with and without attempt_timeout_s: Task.cancel() between
    # any two loop iterations
    for e, at, bs in itertools.product(["AsyncRetry.call", "AsyncRetry.execute", "AsyncPolicy.call",
                                        "AsyncPolicy.execute"], [None, 2], [True, False]):
        cfg = dict(M=3, alphabet=["ok", "x:T", "r:T"], abort=True, loop=True, attempt_timeout=at,
                   durs=[0, 3], dur_free=True, inject=["cancel"], sleeper="call", sleeper_async=True,
                   before_sleep="call", bs_async=bs, max_unknown=None)
        out.append({"family": "async-loop-cancel", "cfg": cfg, "entry": e, "bound": 1, "weight": 5})
        if at is not None and bs:
            out.append({"family": "async-loop-cancel", "cfg": dict(cfg, unwind_ticks=1), "entry": e,
                        "bound": 1, "weight": 5})
    # the task's cancellation is *requested* while an attempt runs (task.cancel() from inside the
    # operation): it is delivered at the next suspension point, which the backoff sleep is - also
    # a zero-length one through the library's default sleeper
    for e, sl, hd in itertools.product(["AsyncRetry.call", "AsyncRetry.execute", "AsyncPolicy.call",
                                        "AsyncPolicy.execute", "adeco"], [None, "call"], [None, "call"]):
        if e == "adeco" and (sl or hd):
            continue
        cfg = dict(M=3, alphabet=["sc:x:T", "ok", "x:T", "sc:r:T"], loop=True, sleeper=sl,
                   sleeper_async=True, handler=hd, handler_menu=["SLEEP"], strat_menu=[0, 1, "nan", -1],
                   strat_free=True, max_unknown=None)
        out.append({"family": "async-cancel-requested", "cfg": cfg, "entry": e, "bound": 1, "weight": 3})
    # sync attempt timeout (owned executor): cancellation-type exceptions still propagate
    for e in Q4[:2] + POL[:2]:
        cfg = dict(M=3, alphabet=ALPHA, abort=True, attempt_timeout=2, durs=[0, 3], dur_free=True,
                   max_unknown=None)
        out.append({"family": "abort-cancel-timeout", "cfg": cfg, "entry": e, "bound": 1})
    return out


def monitor(w, cfg):
    v = []
    for call in split_calls(w.trace):
        recs = call.records
        polled_since_action = False
        aborted_at = None
        flag_at = None
        cancelled_at = None
        cancel_obj = None
        creq = None
        for i, r in enumerate(recs):
            k = r[0]
            if k == "cancel_requested":
                creq = r[1]
                continue
            if creq is not None and ((k == "op" and r[1] != creq)
                                     or (k == "sleep" and not (len(r) > 5 and r[5] == "cut"))):
                v.append(("c13.work-after-cancel",
                          f"{k} {r[1:3]} performed although the task's cancellation had been "
                          f"requested during attempt {creq}: no suspension point delivered it"))
                creq = None
            if k == "abort_flag":
                flag_at = i
                continue
            if k == "poll":
                polled_since_action = True
                if r[1] and aborted_at is None:
                    aborted_at = i
                continue
            if (k == "op" and r[2] == "cut") or (k == "sleep" and len(r) > 5 and r[5] == "cut"):
                # an attempt / sleep that was already in progress and got interrupted
                polled_since_action = False
                continue
            if k in ("op", "sleep"):
                # NB an op record is appended when the operation finishes; nothing else can be
                # recorded between its start and its end in a single-task run
                if aborted_at is not None:
                    v.append(("c13.work-after-abort",
                              f"{k} {r[1:3]} after abort was requested"))
                elif flag_at is not None and r[3] >= recs[flag_at][2] and not (
                        k == "sleep" and recs[flag_at][1] == "sleep" and i == flag_at - 1):
                    v.append(("c13.work-after-abort",
                              f"{k} {r[1:3]} begun after the abort condition became true "
                              f"({recs[flag_at][1]} at {recs[flag_at][2]})"))
                if cancelled_at is not None:
                    v.append(("c13.work-after-cancel", f"{k} {r[1:3]} after a cancellation-type "
                                                       f"exception was raised"))
                if cfg["abort"] and not polled_since_action:
                    what = "attempt" if k == "op" else "backoff sleep"
                    v.append(("c13.no-poll", f"abort_if not consulted before {what} {r[1:3]}"))
                polled_since_action = False
                if k == "op":
                    if r[2] == "abort" and aborted_at is None:
                        aborted_at = i
                    if r[2] in CANCEL:
                        cancelled_at, cancel_obj = i, r[5]
                elif len(r) > 5:
                    cancelled_at, cancel_obj = i, r[5]
                continue
            if k == "thrown":
                if r[1] in ("cancel", "kbd", "exit") and cancelled_at is None:
                    cancelled_at, cancel_obj = i, r[2]
                continue
            if k == "susp_after_throw":
                v.append(("c13.cancel-swallowed",
                          f"coroutine suspended again at {r[1]} after a cancellation was thrown in"))
                continue
            if k == "close_ignored":
                v.append(("c13.close-ignored", f"coroutine ignored close(): {r[1]}"))
                continue
            if k in ("classify", "rclassify", "strategy", "consume", "handler", "bsleep"):
                if cancelled_at is not None:
                    v.append(("c13.classified-cancel",
                              f"{k} invoked after a cancellation-type exception"))
                if aborted_at is not None and k in ("strategy", "consume", "handler", "bsleep"):
                    v.append(("c13.work-after-abort", f"{k} invoked after abort was requested"))
        end = call.end
        if end is None or end[1] == "closed":
            continue
        if cancelled_at is not None and cancel_obj is None:
            # cancellation delivered by Task.cancel() on the virtual loop
            if end[1] != "raise" or end[2] != "CancelledError":
                v.append(("c13.cancel-not-propagated",
                          f"the task was cancelled but the call ended with {end[:4]}"))
            continue
        if cancelled_at is not None:
            if end[1] != "raise" or end[3] != cancel_obj:
                v.append(("c13.cancel-not-propagated",
                          f"cancellation-type exception (object {cancel_obj}) did not leave the "
                          f"call unchanged: {end[:4]}"))
            continue
        if aborted_at is not None:
            if end[1] == "raise":
                if end[2] != "AbortRetryError":
                    v.append(("c13.abort-ending", f"aborted run raised {end[2]}"))
            elif end[1] == "outcome":
                if end[2] or end[4] != "ABORTED":
                    v.append(("c13.abort-ending",
                              f"aborted run returned ok={end[2]} stop_reason={end[4]}"))
            else:
                v.append(("c13.abort-ending", f"aborted run returned a value {end[:3]}"))
    return v


def run_plain(cfg, entry, ch):
    full = seq.mkcfg(**cfg)
    w = seq.World(full, ch)
    w.call(entry)
    return w, monitor(w, full)


def run_task(task, seed):
    return explore_task(task, seed, run_plain)


def replay(doc):
    return run_plain(doc["cfg"], doc["entry"], Chooser(tuple(doc["choices"])))
