"""C20 - Retry-After hints are parsed safely and honoured exactly."""

from __future__ import annotations

import datetime as _dt
import itertools
import math
import re

from ..seqcheck import new_result

PID = "C20"

META = {
    "level": "exploration",
    "engine": "E5 domain + E1 end-to-end",
    "rule": ("header strings = every sequence of <= 3 (4 thorough) tokens from a 30-token grammar "
             "(empty, blanks, digit strings of 1..4301 digits, signs, underscore, dot, exponent, "
             "letters, a non-ASCII digit, NUL, four complete IMF-fixdates around the owned 'now', "
             "date pieces with absurd zone offsets), each supplied as header value and as "
             "retry_after attribute; non-string values; header containers (dict in 4 key casings, "
             "list of pairs, objects with .get / .get+.items, exc.headers vs exc.response.headers, "
             "strings, ints, raising iterables and getters); end-to-end: a real Retry with "
             "http_retry_after_classifier + retry_after_or over hint x jitter x draw x remaining; "
             "distinct = distinct inputs; non-trivial = non-empty input"),
    "assumptions": ["wall clock (datetime.now) owned: 2030-01-01T00:00:00Z",
                    "strings that are neither plain ASCII digit strings nor one of the four valid "
                    "dates and that contain a digit are don't-cares (no exception, hint >= 0)",
                    "digit strings beyond the float range: no hint or any non-negative number"],
    "min_outcomes": {"quick": 5},
}

D_PAST = "Mon, 31 Dec 2029 23:00:00 GMT"
D_NOW = "Tue, 01 Jan 2030 00:00:00 GMT"
D_FUT = "Tue, 01 Jan 2030 00:01:30 GMT"
D_9999 = "Fri, 31 Dec 9999 23:59:59 GMT"
D_NAIVE = "Tue, 01 Jan 2030 00:01:30"          # no zone: read as UTC (pinned by the repository's tests)
D_MINUS0 = "Tue, 01 Jan 2030 00:01:30 -0000"   # RFC 5322 "-0000": UTC, no zone information
D_9999_W1 = "Fri, 31 Dec 9999 23:59:59 -0100"   # later than datetime.max once expressed in UTC
D_9999_W5 = "Fri, 31 Dec 9999 20:00:00 -0500"
D_ASC = "Tue Jan  1 00:01:30 2030"              # asctime form of an HTTP-date (no comma, GMT)
D_RFC850 = "Tuesday, 01-Jan-30 00:01:30 GMT"    # obsolete RFC 850 form
DATES = {D_PAST: 0.0, D_NOW: 0.0, D_FUT: 90.0, D_9999: None, D_NAIVE: 90.0, D_MINUS0: 90.0,
         D_9999_W1: None, D_9999_W5: None, D_ASC: 90.0}
TOKENS = ["", " ", "\t", "0", "1", "7", "120", "9" * 308, "9" * 309, "9" * 4300, "9" * 4301, "+",
          "-", "_", ".", "e", "x", "٣", "²", "\x00", D_PAST, D_NOW, D_FUT, D_9999, D_NAIVE, D_MINUS0, D_9999_W1, D_9999_W5, D_ASC, "Mon, ",
          "01 Jan 2035 ", "00:00:00 ", "GMT", "+0000", "+9999", "+99999999999999"]
NONSTR = [None, 5, 5.5, True, False, 10 ** 400, -(10 ** 400), math.nan, math.inf, -math.inf, -3,
          0, b"5", ["5"], (5,), {"a": 1}, "OBJ"]
FLOAT_MAX_DIGITS = 308


def bounds(tier):
    return {"max_tokens": 3 if tier == "quick" else 4, "tokens": len(TOKENS)}


def tasks(tier):
    out = []
    k = 3 if tier == "quick" else 4
    for first in range(len(TOKENS)):
        out.append({"family": "header-strings", "cfg": {"first": first, "max_tokens": k},
                    "entry": "http_retry_after_classifier", "bound": 0,
                    "weight": 5 if tier != "quick" else 1})
    out.append({"family": "containers", "cfg": {}, "entry": "http_retry_after_classifier", "bound": 0})
    out.append({"family": "end-to-end", "cfg": {}, "entry": "Retry+retry_after_or", "bound": 0})
    return out


def expected(s):
    """('exact', x) | ('none',) | ('any',) for a header string, from the statement."""
    if re.fullmatch(r"[0-9]+", s):
        if len(s.lstrip("0")) <= FLOAT_MAX_DIGITS:
            return ("exact", float(int(s)))
        return ("any",)
    if s in DATES:
        d = DATES[s]
        if d is None:
            return ("exact", 251_471_433_599.0 - 0.0) if False else ("date9999",)
        return ("exact", d)
    if not any(ch.isdigit() for ch in s):
        return ("none",)
    return ("any",)


def judge(res, got_exc, got, exp, what, task):
    from redress.classify import Classification
    from redress.errors import ErrorClass
    if got_exc is not None:
        _viol(res, "c20.raises", f"{what} raised {type(got_exc).__name__}: {str(got_exc)[:160]}",
              task, what)
        return "raised"
    if isinstance(got, ErrorClass):
        if got is not ErrorClass.RATE_LIMIT:
            _viol(res, "c20.class", f"{what} -> {got}", task, what)
        hint = None
    elif isinstance(got, Classification):
        hint = got.retry_after_s
        if got.klass is not ErrorClass.RATE_LIMIT:
            _viol(res, "c20.class", f"{what} -> {got.klass}", task, what)
        if hint is None:
            pass
        elif not isinstance(hint, (int, float)) or isinstance(hint, bool) or hint != hint or hint < 0:
            _viol(res, "c20.bad-hint", f"{what} -> retry_after_s={hint!r}", task, what)
            return "bad"
    else:
        _viol(res, "c20.bad-hint", f"{what} -> {got!r}", task, what)
        return "bad"
    if exp[0] == "exact" and hint != exp[1]:
        _viol(res, "c20.wrong-hint", f"{what}: hint must be {exp[1]!r}, got {hint!r}", task, what)
    elif exp[0] == "none" and hint is not None:
        _viol(res, "c20.hint-from-garbage", f"{what}: garbage must give no hint, got {hint!r}",
              task, what)
    elif exp[0] == "date9999" and (hint is None or hint < 2.5e11):
        _viol(res, "c20.wrong-hint", f"{what}: year-9999 date must give the time until then, "
                                     f"got {hint!r}", task, what)
    return "none" if hint is None else "zero" if hint == 0 else "pos"


def _viol(res, key, msg, task, case):
    res["nviol"] += 1
    res["viol_keys"][key] = res["viol_keys"].get(key, 0) + 1
    if not any(v["key"] == key for v in res["violations"]):
        res["violations"].append({"key": key, "msg": msg, "family": task["family"],
                                  "cfg": task["cfg"], "entry": task["entry"],
                                  "choices": [case[:400]], "labels": [case[:400]], "trace": [],
                                  "extra": {}})


def show(s):
    if isinstance(s, str) and len(s) > 60:
        return f"{s[:20]!r}...({len(s)} chars)"
    if isinstance(s, int) and not isinstance(s, bool) and abs(s) > 10 ** 30:
        return f"<int {s.bit_length()} bits>"
    return repr(s)


class Exc429(Exception):
    status = 429


def run_strings(task, seed):
    from .. import env as E
    E.install()
    from redress.extras import http_retry_after_classifier as clf
    res = new_result()
    clock = E.Clock()
    E.set_clock(clock)
    first, k = task["cfg"]["first"], task["cfg"]["max_tokens"]
    for n in range(1, k + 1):
        for rest in itertools.product(range(len(TOKENS)), repeat=n - 1):
            s = TOKENS[first] + "".join(TOKENS[i] for i in rest)
            exp = expected(s)
            for mode in ("header", "attr"):
                e = Exc429("x")
                if mode == "header":
                    e.headers = {"Retry-After": s}
                else:
                    e.retry_after = s
                res["execs"] += 1
                if s:
                    res["nontrivial"].add(hash((mode, s)))
                try:
                    got, ge = clf(e), None
                except Exception as ex:  # noqa: BLE001
                    got, ge = None, ex
                o = judge(res, ge, got, exp, f"Retry-After {mode} {show(s)}", task)
                res["outcomes"].add((exp[0], o))
    res["samples"].append({"string": show(TOKENS[first] + "120"), "expected": list(expected(TOKENS[first] + "120"))})
    return res


def run_containers(task, seed):
    from .. import env as E
    E.install()
    from redress.extras import http_retry_after_classifier as clf
    res = new_result()
    E.set_clock(E.Clock())

    class Getter:
        def __init__(self, d):
            self.d = d

        def get(self, k, default=None):
            return self.d.get(k, default)

    class GetItems(Getter):
        def items(self):
            return self.d.items()

    class ItemsGen(Getter):
        """A headers object with a case-sensitive get() whose items() is a generator."""

        def items(self):
            yield from self.d.items()

    class RaisingGet:
        def get(self, k, default=None):
            raise RuntimeError("boom")

    class RaisingItems(Getter):
        def items(self):
            raise KeyError("boom")

    def gen_raises():
        yield ("X", "1")
        raise RuntimeError("boom")

    class Resp:
        pass

    casings = ["Retry-After", "retry-after", "RETRY-AFTER", "Retry-after"]
    values = ["120", 120, " 120 ", D_FUT, "garbage", "", None] + NONSTR
    shapes = []
    for key in casings:
        shapes += [("dict", lambda v, key=key: {key: v}, True),
                   ("pairs", lambda v, key=key: [(key, v)], True),
                   ("tuple-pairs", lambda v, key=key: ((key, v),), True),
                   ("get+items", lambda v, key=key: GetItems({key: v}), True),
                   ("get", lambda v, key=key: Getter({key: v}), key in casings[:2]),
                   # single-pass containers: they can be walked once
                   ("iter-pairs", lambda v, key=key: iter([("X-Other", "1"), (key, v)]), True),
                   ("gen-pairs", lambda v, key=key: (p for p in [(key, v), ("Z", "9")]), True),
                   ("zip-pairs", lambda v, key=key: zip(["A", key], ["0", v]), True),
                   ("items-gen", lambda v, key=key: ItemsGen({key: v}), True)]
    shapes += [("string", lambda v: "Retry-After: 120", False), ("int", lambda v: 7, False),
               ("raising-gen", lambda v: gen_raises(), False),
               ("raising-get", lambda v: RaisingGet(), False),
               ("raising-items", lambda v: RaisingItems({}), False),
               ("list-of-junk", lambda v: [1, "x", None, ("a",)], False),
               ("bytes-keys", lambda v: {b"Retry-After": v}, False),
               ("nested", lambda v: {"Retry-After": {"Retry-After": v}}, False)]
    from redress.errors import RateLimitError

    class MarkerOnly(RateLimitError):
        """RATE_LIMIT through the marker type alone: no numeric status anywhere."""

    class PropExc(Exception):
        """headers / response are properties (urllib.error.HTTPError.headers is one)."""
        status = 429
        _h = _r = None
        headers = property(lambda self: self._h, lambda self, v: setattr(self, "_h", v))
        response = property(lambda self: self._r, lambda self, v: setattr(self, "_r", v))

    class SlotExc(Exception):
        """the carriers live in __slots__ (descriptor-backed, absent until assigned)."""
        __slots__ = ("headers", "response", "retry_after")
        status = 429

    for (sname, mk, must_find), v, where, exc_type in itertools.product(
            shapes, values, ["headers", "response", "response+empty-dict", "response+empty-list"],
            [Exc429, MarkerOnly, PropExc, SlotExc]):
        if exc_type is not Exc429 and where not in ("headers", "response"):
            continue
        e = exc_type("x")
        if where == "headers":
            e.headers = mk(v)
        else:
            r = Resp()
            r.headers = mk(v)
            e.response = r
            if where == "response+empty-dict":
                e.headers = {}          # present but empty: the response's headers still count
            elif where == "response+empty-list":
                e.headers = []
        res["execs"] += 1
        case = f"{sname} {where} value {show(v)}" + (
            "" if exc_type is Exc429 else f" ({exc_type.__name__}: {(exc_type.__doc__ or '').strip()})")
        res["nontrivial"].add(hash(case))
        if must_find and isinstance(v, (str, int)) and not isinstance(v, bool) and v in ("120", 120):
            exp = ("exact", 120.0)
        elif must_find and v == D_FUT:
            exp = ("exact", 90.0)
        elif must_find and v == "garbage":
            exp = ("none",)
        else:
            exp = ("any",)
        try:
            got, ge = clf(e), None
        except Exception as ex:  # noqa: BLE001
            got, ge = None, ex
        o = judge(res, ge, got, exp, case, task)
        res["outcomes"].add((sname, o))
    # non-string retry_after attribute, and status supplied in other ways
    for v in NONSTR + ["120", 7.25]:
        e = Exc429("x")
        e.retry_after = object() if v == "OBJ" else v
        res["execs"] += 1
        case = f"retry_after attribute {show(v)}"
        res["nontrivial"].add(hash(case))
        if isinstance(v, (int, float)) and not isinstance(v, bool) and v == v and 0 <= v < 1e300:
            exp = ("exact", float(v))
        else:
            exp = ("any",)
        try:
            got, ge = clf(e), None
        except Exception as ex:  # noqa: BLE001
            got, ge = None, ex
        o = judge(res, ge, got, exp, case, task)
        res["outcomes"].add(("attr", o))
    # the same HTTP-date seen again later: the hint is the time until that date *now*
    for mode in ("header", "attr"):
        clk = E.Clock()
        E.set_clock(clk)
        import datetime as _dt
        base = _dt.datetime(2030, 1, 1, 0, 0, 0, tzinfo=_dt.UTC)
        for advance, want in ((0, 90.0), (40, 50.0), (100, 0.0), (0, 90.0)):
            clk.utcnow = base + _dt.timedelta(seconds=advance)
            e = Exc429("x")
            if mode == "header":
                e.headers = {"Retry-After": D_FUT}
            else:
                e.retry_after = D_FUT
            res["execs"] += 1
            case = f"date {mode} seen with the clock advanced by {advance}s"
            res["nontrivial"].add(hash(case))
            try:
                got, ge = clf(e), None
            except Exception as ex:  # noqa: BLE001
                got, ge = None, ex
            judge(res, ge, got, ("exact", want), case, task)
        E.set_clock(E.Clock())
    # not a rate-limit error: never a hint
    e = Exception("x")
    e.status = 503
    e.retry_after = 5
    got = clf(e)
    if getattr(got, "name", None) != "SERVER_ERROR":
        _viol(res, "c20.class", f"503 with retry_after -> {got!r}", task, "503")
    res["samples"].append({"container": "dict RETRY-AFTER", "value": "120", "expected": 120.0})
    return res


def run_end_to_end(task, seed):
    from .. import env as E
    E.install()
    from redress.extras import http_retry_after_classifier as clf
    from redress.policy import AsyncRetry, Retry
    from redress.strategies import retry_after_or
    res = new_result()
    TAU = E.TAU
    import concurrent.futures as _cf

    import redress.policy.runner.sync_core as _sc
    _sc.ThreadPoolExecutor = _cf.ThreadPoolExecutor   # the real executor (another task may have
    # installed the owned one in this worker process)
    hints = [0, 1, 3, 0.125, 0.375, "2", "80", 99.5, D_FUT, None, 0.0005, 1e-7]
    for h, jit, fr, dl, is_async, at, bs in itertools.product(
            hints, [0.0, 2 * TAU, -1.0, math.inf, math.nan, 1e308], [0.0, 0.5, 1.0],
            [None, 2 * TAU, 100.0, 86400.0 + 60.0],
            [False, True], [None, 30.0], [None, "fine", "raises"]):
        if at is not None and is_async:
            continue  # asyncio.wait_for needs an event loop; the sync path shares the delay logic
        if bs is not None and (at is not None or fr != 0.5):
            continue
        clock = E.Clock()
        clock.frac = fr
        E.set_clock(clock)
        sleeps = []

        def sleeper(s, clock=clock, sleeps=sleeps):
            sleeps.append(s)
            clock.now += s

        async def async_sleeper(s, clock=clock, sleeps=sleeps):
            sleeps.append(s)
            clock.now += s

        if is_async:
            # three shapes of async sleeper: plain function, coroutine function, plain callable
            # returning an awaitable
            shape = (hash((repr(h), jit, fr)) // 7) % 3
            use_sleeper = (sleeper, async_sleeper, lambda s: async_sleeper(s))[shape]
        else:
            use_sleeper = sleeper

        seen_by_hook = []

        def before_sleep(ctx, s, bs=bs, seen_by_hook=seen_by_hook):
            seen_by_hook.append(s)
            if bs == "raises":
                raise RuntimeError("observability hook failed")

        def op(h=h):
            e = Exc429("x")
            if isinstance(h, str):
                e.headers = {"retry-after": h}
            elif h is not None:
                e.retry_after = h
            raise e

        async def aop():
            op()

        kw = dict(classifier=clf, strategy=retry_after_or(lambda ctx: 9 * TAU, jitter_s=jit),
                  max_attempts=2, deadline_s=1.0e6 if dl is None else dl, max_unknown_attempts=None,
                  attempt_timeout_s=at)
        res["execs"] += 1
        case = f"hint={h!r} jitter={jit} draw={fr} deadline={dl} async={is_async} attempt_timeout={at}"
        ckw = {}
        assign_deadline = dl is not None and bs == "fine"
        if assign_deadline:
            # the deadline is configured by attribute assignment after construction
            kw = dict(kw, deadline_s=7.0)
        if bs is not None:
            case += f" before_sleep={bs}"
            ckw["before_sleep"] = before_sleep
        res["nontrivial"].add(hash(case))
        try:
            if is_async:
                pol = AsyncRetry(**kw)
                if assign_deadline:
                    pol.deadline = _dt.timedelta(seconds=dl)
                co = pol.call(aop, sleeper=use_sleeper, **ckw)
                try:
                    co.send(None)
                except StopIteration:
                    pass
            else:
                pol = Retry(**kw)
                if assign_deadline:
                    pol.deadline = _dt.timedelta(seconds=dl)
                pol.call(op, sleeper=sleeper, **ckw)
        except Exc429:
            pass
        except Exception as ex:  # noqa: BLE001
            _viol(res, "c20.raises", f"{case}: {type(ex).__name__}: {ex}", task, case)
            continue
        if len(sleeps) != 1:
            _viol(res, "c20.end-to-end", f"{case}: expected one backoff sleep, got {sleeps}", task, case)
            continue
        s = sleeps[0]
        hv = {"2": 2.0, "80": 80.0, D_FUT: 90.0}.get(h, h) if isinstance(h, str) else h
        rem = math.inf if dl is None else dl
        j = max(0.0, jit) if jit == jit else 0.0   # a NaN jitter_s adds nothing
        if hv is None:
            lo = hi = min(9 * TAU, rem)
        else:
            lo, hi = min(float(hv), rem), min(float(hv) + j, rem)
        res["outcomes"].add((hv is not None, s == lo, s == hi, dl is not None))
        if not (lo <= s <= hi):
            _viol(res, "c20.end-to-end", f"{case}: waited {s!r}, must be within [{lo!r}, {hi!r}]",
                  task, case)
        if bs is not None and seen_by_hook != [s]:
            _viol(res, "c20.end-to-end", f"{case}: before_sleep was told {seen_by_hook}, the wait "
                                         f"was {s!r}", task, case)
    res["samples"].append({"hint": 3, "jitter_s": 0.25, "draw": 0.5, "deadline": 0.25})
    return res


def run_task(task, seed):
    fam = task["family"]
    if fam == "header-strings":
        return run_strings(task, seed)
    if fam == "containers":
        return run_containers(task, seed)
    return run_end_to_end(task, seed)


def replay(doc):
    class W:
        trace = [("case", doc["choices"])]
    r = run_task({"family": doc["family"], "cfg": doc["cfg"], "entry": doc["entry"]}, 0)
    hits = [v for v in r["violations"] if v["key"] == doc["key"]]
    return W, [(v["key"], v["msg"]) for v in hits]
