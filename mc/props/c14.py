"""C14 - event stream explains every run: retry* then exactly one terminal event."""

from __future__ import annotations

import itertools

from ..final import analyse
from ..kernel import Chooser
from ..lazy import seq
from ..seqcheck import explore_task, nest_tasks
from ..spec import KLASS_FULL, TERMINAL_EVENTS, attempts, delivered_reason, sanitise
from ..tracelib import split_calls

PID = "C14"
RETRY_ENTRIES = ["Retry.execute", "AsyncRetry.execute", "Retry.call", "AsyncRetry.call"]
POLICY_ENTRIES = ["Policy.execute", "AsyncPolicy.execute", "Policy.call", "AsyncPolicy.call"]
ALPHA = ["ok", "x:T", "x:U", "x:P", "r:T", "r:R", "abort"]

META = {
    "level": "model_checking",
    "engine": "E1 seq",
    "rule": ("C03's family (caps, deadline, budget, all outcome sequences, abort polls / handler "
             "decisions / durations as bounded deviations) with metric hook, log hook and timeline "
             "(captured or supplied) attached, operation name set and unset; policy level: "
             "sequences of <= 3 calls with clock advances on a real breaker; distinct = (end "
             "kind, reason, attempts, failure sequence)"),
    "assumptions": ["attempt_timeout_s=None", "only runs that end normally are judged (value, "
                    "failure, deferral, abort)", "attempt number on terminal events not checked"],
    "min_outcomes": {"quick": 12},
}


def bounds(tier):
    return {"deviation_bound": 1 if tier == "quick" else 2, "calls_per_breaker_history": 3}


def tasks(tier):
    out = []
    bound = 1 if tier == "quick" else 2
    for M, pc, mu, dl, bud, tl, opn in itertools.product(
            [1, 2, 3], [{}, {"T": 1}], [None, 1], [None, 3], [None, {"max": 1, "window": 8}],
            [True, "object"], [None, "opname"]):
        cfg = dict(M=M, per_class=pc, max_unknown=mu, deadline=dl, budget=bud, alphabet=ALPHA,
                   durs=[0, 2], overshoot=[0, 3], abort=True, handler="call", strat_menu=[1, 9],
                   timeline=tl,
                   operation=opn,
                   strat={"default": "ctx", "per": {}} if mu is None else
                   {"default": None, "per": {"T": "ctx", "U": "legacy"}})
        for e in RETRY_ENTRIES:
            out.append({"family": "stream", "cfg": cfg, "entry": e, "bound": bound, "weight": M})
    for site, idx, e in itertools.product(["metric", "log"], ["always", 0, 1], RETRY_ENTRIES[:2]):
        cfg = dict(M=3, alphabet=ALPHA, abort=True, handler="call", timeline=True, operation="opname",
                   max_unknown=1, faults=[(site, idx, "RuntimeError")])
        out.append({"family": "stream-hook-fault", "cfg": cfg, "entry": e, "bound": bound})
    # exception objects whose truth value is False (an empty aggregate error) are still errors
    for e in RETRY_ENTRIES + POLICY_ENTRIES[:2]:
        cfg = dict(M=3, alphabet=["ok", "xf:T", "x:T", "r:T", "xf:P"], handler="call", timeline=True,
                   operation="opname", max_unknown=1)
        out.append({"family": "stream-falsy-exception", "cfg": cfg, "entry": e, "bound": bound})
    # a sleep handler that itself takes time, so that the deadline can pass while it decides
    for dl, e in itertools.product([2, 3], RETRY_ENTRIES):
        cfg = dict(M=3, alphabet=["ok", "x:T", "r:T"], handler="call", handler_durs=[0, 2, 4],
                   deadline=dl, durs=[0, 1], timeline=True, operation="opname", max_unknown=None,
                   strat_menu=[1])
        out.append({"family": "stream-slow-handler", "cfg": cfg, "entry": e, "bound": bound + 1})
    # an attempt fails inside its on_attempt_start hook: the i-th retry event still carries
    # attempt=i on every sink
    for idx, e in itertools.product([0, 1, 2], RETRY_ENTRIES + POLICY_ENTRIES[:2]):
        cfg = dict(M=4, alphabet=["ok", "x:T", "r:T"], attempt_hooks="call", max_unknown=None,
                   timeline=True, faults=[("astart", idx, "RuntimeError")], strat_menu=[1])
        out.append({"family": "stream-start-hook-fault", "cfg": cfg, "entry": e, "bound": 0})
    # a sleep handler answering the plain strings "defer" / "abort" / "sleep" instead of the enum
    # members: whatever the library makes of that, the stream keeps its shape
    for ans, e in itertools.product(["S:defer", "S:abort", "S:sleep"], RETRY_ENTRIES):
        cfg = dict(M=3, alphabet=["ok", "x:T", "r:T"], handler="call", handler_menu=[ans],
                   timeline=True, operation="opname", max_unknown=None)
        out.append({"family": "stream-string-answer", "cfg": cfg, "entry": e, "bound": 0})
    # one very long run: every sink still sees every event
    for e in RETRY_ENTRIES[:2] + POLICY_ENTRIES[:2]:
        cfg = dict(M=140, alphabet=["x:T"], timeline=True, operation="opname", max_unknown=None,
                   strat_menu=[0])
        out.append({"family": "stream-long-run", "cfg": cfg, "entry": e, "bound": 0})
    # `raise X from low_level`: the err tag names X, the exception the attempt failed with
    for e in RETRY_ENTRIES + POLICY_ENTRIES[:2]:
        cfg = dict(M=3, alphabet=["ok", "xq:T", "xq:P", "x:T", "r:T"], handler="call", timeline=True,
                   operation="opname", max_unknown=1)
        out.append({"family": "stream-chained-cause", "cfg": cfg, "entry": e, "bound": bound})
    # only one of the sinks attached (the timeline must not depend on a metric hook)
    for metric, log in [(False, True), (True, False), (False, False)]:
        cfg = dict(M=3, alphabet=ALPHA, abort=True, handler="call", timeline=True, metric=metric,
                   log=log, operation="opname", max_unknown=1)
        for e in RETRY_ENTRIES[:2]:
            out.append({"family": "stream-partial", "cfg": cfg, "entry": e, "bound": bound})
    # policy level with a real breaker
    for thr, e, opn in itertools.product([1, 2], POLICY_ENTRIES, [None, "opname"]):
        cfg = dict(M=2, alphabet=["ok", "x:T", "r:T", "x:P", "abort"], max_unknown=None,
                   breaker={"threshold": thr, "window": 8, "recovery": 2, "trip_on": ["T", "P"]},
                   operation=opn, timeline=True)
        out.append({"family": "breaker-events", "cfg": cfg, "entry": e, "bound": 0,
                    "ncalls": 3, "ticks": [0, 2], "weight": 5})
    out += nest_tasks(RETRY_ENTRIES, "stream-reentrant", ["ok", "x:T", "r:T", "x:U", "abort"],
                      handler="call", timeline=True, operation="opname")
    # a second call arrives (re-entrantly) while the first one is the half-open probe
    for site, e in itertools.product(["aend", "metric"], POLICY_ENTRIES):
        cfg = dict(M=2, alphabet=["ok", "x:T", "r:T"], max_unknown=None, attempt_hooks="call",
                   operation="opname", nest={"site": site, "entry": e, "script": ["ok"]},
                   breaker={"threshold": 1, "window": 8, "recovery": 2, "trip_on": ["T"],
                            "pre": [("fail", "T"), ("tick", 2)]})
        out.append({"family": "breaker-events-overlap", "cfg": cfg, "entry": e, "bound": 1})
    return out


def _tags_of_log(fields):
    d = dict(fields)
    att = d.pop("attempt", None)
    sl = d.pop("sleep_s", None)
    d.pop("retry_after_s", None)
    return att, sl, tuple(sorted(d.items()))


def monitor_numbering(w, cfg):
    v = []
    for call in split_calls(w.trace):
        for sink in ("metric", "log"):
            nums = []
            for r in call.records:
                if r[0] == sink and r[1] == "retry":
                    nums.append(r[2] if sink == "metric" else dict(r[2]).get("attempt"))
            if nums != list(range(1, len(nums) + 1)):
                v.append(("c14.retry-numbering", f"{sink} sink: retry events numbered {nums}"))
    return v


def monitor(w, cfg):
    if any(f[0] == "astart" for f in cfg["faults"] or ()):
        return monitor_numbering(w, cfg)
    v = []
    for nt in getattr(w, "nested_traces", ()):
        v.extend(_breaker_events(nt, cfg))
    v.extend(_stream(w, cfg))
    v.extend(_breaker_events(w.trace, cfg))
    return v


def _stream(w, cfg):
    v = []
    for call in split_calls(w.trace):
        end = call.end
        if end is None or end[1] == "closed":
            continue
        fin = analyse(cfg, call)
        hook_faults_only = all(r[1] in ("metric", "log", "before_sleep")
                               for r in call.records if r[0] == "fault")
        if fin.cancelled or fin.nested or (fin.faulted and not hook_faults_only):
            continue
        if (end[1] == "raise" and end[2] in ("ValueError", "TypeError")
                and any(r[0] == "handler" and str(r[4]).startswith(("S:", "BAD")) for r in call.records)):
            continue   # the library rejected an invalid handler answer: not a normally-ending run
        metrics = [r for r in call.records if r[0] == "metric" and not r[1].startswith("circuit_")]
        logs = [r for r in call.records if r[0] == "log" and not r[1].startswith("circuit_")]
        rejected = any(r[0] == "brk" and r[1] == "allow" and not r[3][0] for r in call.records)
        if rejected:
            if metrics or logs:
                v.append(("c14.events-on-rejection", "retry events emitted for a rejected call"))
            continue
        streams = {}
        if cfg["metric"]:
            streams["metric"] = [(r[1], r[2], r[3], r[4]) for r in metrics]
        if cfg["log"]:
            streams["log"] = []
            for r in logs:
                att, sl, tags = _tags_of_log(r[2])
                streams["log"].append((r[1], att, sl, tags))
        tl = end[11] if end[1] == "outcome" else None
        if end[1] == "outcome" and cfg["timeline"]:
            if tl is None:
                v.append(("c14.no-timeline", "capture_timeline requested but outcome.timeline is None"))
            elif cfg["timeline"] == "object" and end[12] is not True:
                v.append(("c14.timeline-object", "the supplied RetryTimeline was not the one returned"))
        names = list(streams)
        for a, b in zip(names, names[1:]):
            if streams[a] != streams[b]:
                v.append(("c14.sinks-differ", f"{a} and {b} streams differ: "
                                              f"{streams[a]} vs {streams[b]}"))
        ref = streams.get("metric") or streams.get("log")
        if tl is not None and ref is not None:
            proj = []
            for (ev, att, sl, tags) in ref:
                d = dict(tags)
                k = d.get("class")
                proj.append((ev, att, sl,
                             next((s for s, full in KLASS_FULL.items() if full == k), k),
                             d.get("stop_reason"), d.get("cause")))
            if list(tl) != proj:
                v.append(("c14.timeline-differs", f"timeline {list(tl)} vs hook stream {proj}"))
        if ref is None:
            if tl is None:
                continue
            ref = [(e[0], e[1], e[2], tuple(sorted(
                [(k, val) for k, val in (("class", KLASS_FULL.get(e[3])), ("stop_reason", e[4]),
                                         ("cause", e[5])) if val is not None]))) for e in tl]
            partial = True
        else:
            partial = False
        # shape: retry* terminal
        if not ref:
            v.append(("c14.no-terminal", f"run ended ({end[1:3]}) with no event at all"))
            continue
        body, term = ref[:-1], ref[-1]
        for i, ev in enumerate(body):
            if ev[0] != "retry":
                v.append(("c14.shape", f"event #{i + 1} is {ev[0]!r}; only retry events may "
                                       f"precede the terminal event: {[e[0] for e in ref]}"))
        if term[0] not in TERMINAL_EVENTS:
            v.append(("c14.no-terminal", f"stream ends with {term[0]!r}: {[e[0] for e in ref]}"))
            continue
        # i-th retry: attempt=i, sleep_s = applied delay
        atts = list(attempts(cfg, call))
        granted = [a for a in atts if a.op.failed and a.retries]
        retries = [e for e in ref if e[0] == "retry"]
        for i, ev in enumerate(retries):
            if ev[1] != i + 1:
                v.append(("c14.retry-attempt", f"retry event #{i + 1} carries attempt={ev[1]}"))
            if i < len(granted) and len(granted[i].strategy) == 1:
                a = granted[i]
                want = sanitise(a.strategy[0][10], a.remaining)
                if ev[2] != want:
                    v.append(("c14.retry-delay", f"retry #{i + 1} sleep_s={ev[2]}, applied {want}"))
                if a.sleeps and a.sleeps[0][2] != ev[2]:
                    v.append(("c14.retry-delay", f"retry #{i + 1} sleep_s={ev[2]} but the sleeper "
                                                 f"got {a.sleeps[0][2]}"))
        # terminal event content
        tags = dict(term[3])
        opn = cfg["operation"]
        if not partial:
            for ev in ref:
                d = dict(ev[3])
                if (d.get("operation") or None) != opn:
                    v.append(("c14.operation-tag", f"{ev[0]} carries operation={d.get('operation')!r},"
                                                   f" expected {opn!r}"))
                    break
        delivered_ok = (end[1] == "ret") or (end[1] == "outcome" and end[2])
        if (term[0] == "success") != delivered_ok:
            v.append(("c14.terminal-kind", f"terminal event {term[0]!r} but the call "
                                           f"{'delivered a value' if delivered_ok else 'did not succeed'}"))
            continue
        if delivered_ok:
            extra = set(tags) - {"operation"}
            if extra:
                v.append(("c14.success-tags", f"success event carries {sorted(extra)}"))
            continue
        dr = delivered_reason(call)
        has_delivered = end[1] == "outcome" or dr is not None
        if has_delivered and tags.get("stop_reason") != dr:
            v.append(("c14.reason-mismatch", f"terminal event stop_reason={tags.get('stop_reason')}"
                                             f", delivered {dr}"))
        if tags.get("stop_reason") is None:
            v.append(("c14.reason-missing", f"terminal event {term[0]} has no stop_reason tag"))
        if term[0] == "aborted":
            extra = set(tags) - {"operation", "stop_reason"}
            if extra:
                v.append(("c14.abort-tags", f"aborted event carries {sorted(extra)}"))
            continue
        last = fin.last
        if last is None or not last.failed:
            continue
        want_class = KLASS_FULL[last.klass]
        want_cause = "exception" if last.kind == "x" else "result"
        if tags.get("class") != want_class:
            v.append(("c14.class-tag", f"terminal {term[0]} class={tags.get('class')}, final "
                                       f"failure {want_class}"))
        if tags.get("cause") != want_cause:
            v.append(("c14.cause-tag", f"terminal {term[0]} cause={tags.get('cause')}, final "
                                       f"failure cause {want_cause}"))
        if not partial:
            want_err = type(w.objs[last.obj]).__name__ if isinstance(last.obj, int) else "OpError"
            if last.kind == "x" and tags.get("err") != want_err:
                v.append(("c14.err-tag", f"terminal {term[0]} err={tags.get('err')}, expected {want_err}"))
            if last.kind == "r" and "err" in tags:
                v.append(("c14.err-tag", f"terminal {term[0]} carries err={tags['err']} for a "
                                         f"result-caused failure"))
    return v


def _breaker_events(tr, cfg):
    v = []
    for i, r in enumerate(tr):
        if r[0] != "brk":
            continue
        ev = r[3][2] if r[1] == "allow" else r[3]
        state = r[4]   # the breaker's actual state right after the operation
        nxt = []
        for q in tr[i + 1:]:
            if q[0] in ("metric", "log") and q[1].startswith("circuit_"):
                nxt.append(q)
            else:
                break
        if ev is None:
            if nxt:
                v.append(("c14.breaker-spurious", f"breaker {r[1]} returned no event but "
                                                  f"{nxt[0][1]} was emitted"))
            continue
        want = []
        if cfg["metric"]:
            want.append("metric")
        if cfg["log"]:
            want.append("log")
        if [q[0] for q in nxt] != want:
            v.append(("c14.breaker-emission", f"breaker event {ev} emitted to "
                                              f"{[q[0] for q in nxt]}, expected {want}"))
            continue
        for q in nxt:
            if q[0] == "metric":
                name, att, sl, tags = q[1], q[2], q[3], dict(q[4])
            else:
                att, sl, tg = _tags_of_log(q[2])
                name, tags = q[1], dict(tg)
            if name != ev or att != 0 or sl != 0.0 or tags.get("state") != state:
                v.append(("c14.breaker-event", f"breaker event {ev} (state {state}) emitted as "
                                               f"{name} attempt={att} sleep_s={sl} tags={tags}"))
            if (tags.get("operation") or None) != cfg["operation"]:
                v.append(("c14.breaker-event", f"breaker event {name} operation tag "
                                               f"{tags.get('operation')!r}"))
            if r[1] == "failure" and tags.get("class") != KLASS_FULL.get(r[2]):
                v.append(("c14.breaker-event", f"breaker event {name} class tag {tags.get('class')}"
                                               f" for failure class {r[2]}"))
    return v


def run_plain(cfg, entry, ch):
    full = seq.mkcfg(**cfg)
    w = seq.World(full, ch)
    w.call(entry)
    return w, monitor(w, full)


def run_multi(cfg, entry, ch, ncalls, ticks):
    full = seq.mkcfg(**cfg)
    w = seq.World(full, ch)
    for k in range(ncalls):
        if k:
            t = ticks[ch.choose("tick", len(ticks), True)]
            if t:
                w.tick(t)
        w.call(entry)
    return w, monitor(w, full)


def run_task(task, seed):
    if "ncalls" in task:
        n, tk = task["ncalls"], task["ticks"]
        return explore_task(task, seed, lambda cfg, e, ch: run_multi(cfg, e, ch, n, tk))
    return explore_task(task, seed, run_plain)


def replay(doc):
    ch = Chooser(tuple(doc["choices"]))
    if doc["family"] == "breaker-events":
        return run_multi(doc["cfg"], doc["entry"], ch, doc["extra"]["ncalls"], doc["extra"]["ticks"])
    return run_plain(doc["cfg"], doc["entry"], ch)
