"""C11 - execute() returns a faithful RetryOutcome and does not raise for failures."""

from __future__ import annotations

import itertools

from ..final import check_execute
from ..kernel import Chooser
from ..lazy import seq
from ..seqcheck import explore_task, nest_tasks, run_world
from ..tracelib import split_calls

PID = "C11"
ENTRIES = ["Retry.execute", "AsyncRetry.execute", "Policy.execute", "AsyncPolicy.execute",
           "RetryPolicy.execute", "AsyncRetryPolicy.execute"]
ENTRIES0 = ["Policy0.execute", "AsyncPolicy0.execute"]
ALPHA = ["ok", "x:T", "r:T", "x:U", "r:U", "x:P", "r:P", "abort"]
ALPHA_X = ["ok", "x:T", "r:T", "abort", "kbd", "exit", "cancel", "nested"]

META = {
    "level": "model_checking",
    "engine": "E1 seq",
    "rule": ("configuration lattice x every outcome sequence (free; exception and result failures, "
             "AbortRetryError, cancellation-type and nested RetryExhaustedError) x abort polls, "
             "handler decisions, deadline, budget (bounded deviations) x single callback faults "
             "(strategy / classifier / result classifier / sleeper raising at each invocation) on "
             "8 execute-style entry points; distinct = (end kind, reason, attempts, failure "
             "sequence)"),
    "assumptions": ["attempt_timeout_s=None except in the attempt-timeout families (owned executor / virtual loop) and in outcome-late-attempt (the library's real threads, event-sequenced; DESIGN 11.8)",
                    "abort at the poll between a failed attempt and its processing: outcome may "
                    "describe that attempt or the last processed failure (DESIGN section 3)",
                    "Policy(retry=None): stop_reason not checked (no retries to stop)"],
    "min_outcomes": {"quick": 10},
}


def bounds(tier):
    return {"max_attempts": [1, 2, 3], "deviation_bound": 2 if tier == "quick" else 3}


def tasks(tier):
    out = []
    bound = 2 if tier == "quick" else 3
    pcs = [{}, {"T": 1}] if tier == "quick" else [{}, {"T": 1}, {"T": 0}, {"U": 1}]
    for M, pc, mu, dl, bud in itertools.product(
            [1, 2, 3], pcs, [None, 1], [None, 3], [None, {"max": 1, "window": 8}]):
        cfg = dict(M=M, per_class=pc, max_unknown=mu, deadline=dl, budget=bud, alphabet=ALPHA,
                   durs=[0, 2], overshoot=[0, 2], abort=True, handler="call", strat_menu=[1, 9, 0],
                   strat={"default": "ctx", "per": {}} if mu is None else
                   {"default": None, "per": {"T": "ctx", "U": "legacy"}})
        for e in ENTRIES:
            out.append({"family": "outcome", "cfg": cfg, "entry": e, "bound": bound, "weight": M})
    # with a breaker attached at the Policy layer
    for M, e in itertools.product([2, 3], ["Policy.execute", "AsyncPolicy.execute", "PolicySet.execute"]):
        cfg = dict(M=M, alphabet=ALPHA, abort=True, handler="call", max_unknown=1, strat_menu=[1, 0],
                   breaker={"threshold": 3, "window": 8, "recovery": 2, "trip_on": ["T", "U", "P"]})
        out.append({"family": "outcome-breaker", "cfg": cfg, "entry": e, "bound": 2})
    # cancellation-type / nested endings and callback faults
    for M in (2, 3):
        cfg = dict(M=M, alphabet=ALPHA_X, abort=True, max_unknown=None,
                   overshoot=[0, "KeyboardInterrupt", "CancelledError"])
        for e in ENTRIES:
            out.append({"family": "outcome-cancel", "cfg": cfg, "entry": e, "bound": 1})
        for site, idx in itertools.product(["strategy", "classifier", "rclassifier", "sleeper"],
                                           [0, 1]):
            cfg = dict(M=M, alphabet=["ok", "x:T", "r:T", "x:P"], max_unknown=None,
                       faults=[(site, idx, "RuntimeError")])
            for e in ENTRIES:
                out.append({"family": "outcome-fault", "cfg": cfg, "entry": e, "bound": 0})
    # a before_sleep hook that raises (for async entry points: a coroutine raising when awaited)
    # is not one of the callbacks whose errors may leave execute()
    for M, idx, e in itertools.product((2, 3), (0, 1, "always"), ENTRIES):
        is_async = e.startswith("Async")
        cfg = dict(M=M, alphabet=["ok", "x:T", "r:T"], max_unknown=None, before_sleep="call",
                   bs_async=is_async, faults=[("before_sleep", idx, "RuntimeError")])
        out.append({"family": "outcome-before-sleep-fault", "cfg": cfg, "entry": e, "bound": 0})
    # the abort arrives from the on_attempt_start hook (AbortRetryError raised before attempt k)
    for M, idx, e in itertools.product((2, 3), (0, 1, 2), ENTRIES + ENTRIES0):
        if e in ENTRIES0 and (M > 2 or idx > 0):
            continue
        cfg = dict(M=M if e not in ENTRIES0 else 1, alphabet=["ok", "x:T", "r:T"] if e not in ENTRIES0 else ["ok", "x:T"],
                   max_unknown=None, attempt_hooks="call", faults=[("astart", idx, "AbortRetryError")])
        out.append({"family": "outcome-hook-abort", "cfg": cfg, "entry": e, "bound": 0})
    # nobody observes the run; exceptions carrying an errno-style string code (retry-less
    # policies classify with the built-in classifier)
    for M, e in itertools.product([1, 2, 3], ENTRIES):
        cfg = dict(M=M, alphabet=["ok", "x:T", "r:T", "x:P", "xsc:T"], metric=False, log=False,
                   max_unknown=None)
        out.append({"family": "outcome-unobserved", "cfg": cfg, "entry": e, "bound": 1})
    for e in ENTRIES0:
        cfg = dict(M=1, alphabet=["ok", "xsc:U", "x:T"], attempt_hooks="call")
        out.append({"family": "outcome-string-code", "cfg": cfg, "entry": e, "bound": 0})
    # a breaker with class thresholds that has already been through a full trip / recovery cycle
    RECOVERED = {"threshold": 3, "window": 8, "recovery": 2, "trip_on": ["T", "U", "P"],
                 "class_thresholds": {"R": 1, "T": 2},
                 "pre": [("fail", "R"), ("tick", 2), ("allow",), ("success",)]}
    for M, e in itertools.product([2, 3], ["Policy.execute", "AsyncPolicy.execute", "PolicySet.execute"]):
        cfg = dict(M=M, alphabet=["ok", "x:T", "x:R", "r:R", "x:P"], max_unknown=None,
                   breaker=RECOVERED)
        out.append({"family": "outcome-breaker-recovered", "cfg": cfg, "entry": e, "bound": 1})
    # the strategy is a composition of library strategies: retry_after_or(adaptive(...))
    for M, e in itertools.product([2, 3], ENTRIES):
        cfg = dict(M=M, alphabet=["ok", "x:T", "r:T", "x:P"], max_unknown=None,
                   strat={"default": "libnested", "per": {}}, strat_menu=[1])
        out.append({"family": "outcome-library-strategies", "cfg": cfg, "entry": e, "bound": 0})
    # no retry component
    for e in ENTRIES0:
        cfg = dict(M=1, alphabet=["ok"] + [f"x:{k}" for k in "TRSCUPAF"] + ["abort", "kbd", "cancel"],
                   abort=True, attempt_hooks="call")
        out.append({"family": "outcome-noretry", "cfg": cfg, "entry": e, "bound": 1})
    out += nest_tasks(["Retry.execute", "AsyncRetry.execute", "Policy.execute"],
                      "outcome-reentrant", ["ok", "x:T", "r:T", "x:U", "abort"], handler="call")
    for M, e, rc in itertools.product([2, 3], ["Retry.execute", "AsyncRetry.execute", "RetryPolicySet.execute", "AsyncRetryPolicySet.execute"], ["pure", "oneshot"]):
        cfg = dict(M=M, alphabet=["ok", "x:T", "r:T", "r:R", "x:U"], handler="call", rc_mode=rc,
                   strat_menu=[1, 0], strat_free=True, max_unknown=1,
                   strat={"default": None, "per": {"T": "ctx", "R": "legacy", "U": "ctx+opt"}})
        out.append({"family": "outcome-classified-once", "cfg": cfg, "entry": e, "bound": 1})
    # attempt_timeout_s configured (sync, owned executor) and the operation itself raises
    # TimeoutError well within the timeout: it is that attempt's own exception
    for M, e in itertools.product([1, 2, 3], ["Retry.execute", "Policy.execute", "RetryPolicy.execute"] + ["AsyncRetry.execute", "AsyncPolicy.execute", "AsyncRetryPolicy.execute"]):
        cfg = dict(M=M, alphabet=["ok", "x:T", "timeout", "r:T"], attempt_timeout=2, durs=[0, 1, 10],
                   max_unknown=None, handler="call" if "deco" not in e else None,
                   sleeper="call" if "deco" not in e else "policy",
                   loop=e.startswith("Async") or e == "adeco",
                   sleeper_async=e.startswith("Async") or e == "adeco")
        out.append({"family": "outcome-attempt-timeout", "cfg": cfg, "entry": e, "bound": 1})
    # async: the successful attempt's return value is itself an awaitable object (a Task / Future
    # handle the caller wants back): it is the outcome's value, not awaited by the runner
    for M, rcf, e in itertools.product([1, 2, 3], [False, True],
                                       ["AsyncRetry.execute", "AsyncPolicy.execute", "AsyncPolicy0.execute",
                                        "AsyncRetryPolicy.execute"]):
        if "0" in e and (rcf or M > 1):
            continue
        cfg = dict(M=M, alphabet=["ok", "x:T", "r:T"] if rcf else ["ok", "x:T"], ok_awaitable=True,
                   max_unknown=None, force_rc=rcf, sleeper="call")
        out.append({"family": "outcome-awaitable-value", "cfg": cfg, "entry": e, "bound": 1})
    # an ordinary failure raised `from` a nested policy's RetryExhaustedError is an ordinary failure
    for M, e in itertools.product([1, 2, 3], ENTRIES):
        cfg = dict(M=M, alphabet=["ok", "xqn:T", "xqn:P", "x:T", "r:T"], max_unknown=None)
        out.append({"family": "outcome-chained-exhaustion", "cfg": cfg, "entry": e, "bound": 0})
    # the sync attempt timeout on the library's REAL threads: the attempt that overran finishes
    # late (during the backoff sleep, after the next attempt has started, or after the call)
    late = ["ok", "x:T"] if tier == "quick" else ["ok", "x:T", "r:T"]
    for M, e in itertools.product([2] if tier == "quick" else [2, 3],
                                  ["Retry.execute", "Policy.execute", "RetryPolicy.execute"]):
        cfg = dict(M=M, alphabet=["ok", "x:T"] if tier == "quick" else ["ok", "x:T", "r:T"],
                   attempt_timeout=2, durs=[0, 10], real_executor=True, late_menu=late,
                   max_unknown=None, handler="call", handler_menu=["SLEEP"], sleeper="call")
        out.append({"family": "outcome-late-attempt", "cfg": cfg, "entry": e, "bound": 1,
                    "selfcheck": 0})
    # the operation returns None and the result classifier rejects None
    for M, e in itertools.product([2, 3], ["Retry.execute", "Policy.execute", "RetryPolicy.execute", "AsyncRetry.execute",
                                           "AsyncPolicy.execute"]):
        cfg = dict(M=M, alphabet=["ok", "rn:T", "x:T", "rn:P"], force_rc=True, max_unknown=None,
                   handler="call")
        out.append({"family": "outcome-none-result", "cfg": cfg, "entry": e, "bound": 1})
    return out


def monitor(w, cfg):
    v = []
    for call in split_calls(w.trace):
        hook_abort = [r for r in call.records if r[0] == "fault" and r[1] == "astart"
                      and "AbortRetryError" in r]
        if hook_abort:
            end = call.end
            if end is None or end[1] != "outcome":
                v.append(("c11.no-outcome", f"abort raised by on_attempt_start: execute() ended "
                                            f"with {end[:3] if end else None}"))
            else:
                ok, reason, attempts = end[2], end[4], end[5]
                if ok or reason != "ABORTED":
                    v.append(("c11.stop-reason", f"aborted by on_attempt_start: ok={ok} "
                                                 f"stop_reason={reason}"))
                if attempts != len(call.ops):
                    v.append(("c11.attempts", f"outcome.attempts={attempts}, operation invoked "
                                              f"{len(call.ops)} times (abort from on_attempt_start)"))
            continue
        v.extend(check_execute(cfg, call, no_retry=call.entry.split(".")[0].endswith("0")))
    return v


def run_plain(cfg, entry, ch):
    full = seq.mkcfg(**cfg)
    w, judge = run_world(full, entry, ch)
    return w, (monitor(w, full) if judge else [])


def run_task(task, seed):
    return explore_task(task, seed, run_plain)


def replay(doc):
    return run_plain(doc["cfg"], doc["entry"], Chooser(tuple(doc["choices"])))
