"""C15 - observability hooks can never alter control flow."""

from __future__ import annotations

import itertools

from ..kernel import Chooser
from ..lazy import seq
from ..seqcheck import Divergence, diff_chooser, explore_task
from ..tracelib import first_diff, normalize

PID = "C15"
TYPES_ALL = ["RuntimeError", "AbortRetryError", "RetryExhaustedError", "CircuitOpenError",
             "TimeoutError", "StopIteration", "asyncio.TimeoutError", "TypeError", "ValueError",
             "KeyError", "AttributeError", "OSError", "AssertionError", "HybridCancelled",
             "HybridExit"]
TYPES_QUICK = ["RuntimeError", "AbortRetryError", "StopIteration", "TypeError", "HybridCancelled"]
SITES = {"metric": "metric", "log": "log", "before_sleep": "bsleep"}

META = {
    "level": "fault_enumeration",
    "engine": "E1 seq (differential)",
    "rule": ("baseline runs (all outcome sequences, abort polls and handler decisions as bounded "
             "deviations, Policy with a real breaker so breaker events occur, sync and async, "
             "plain and awaitable before_sleep, timeline captured); for each baseline and each "
             "hook in {on_metric, on_log, before_sleep}: raise at each single invocation index "
             "and always, for each exception type; the faulty run is replayed on the same answer "
             "script and must be identical to the silent run (invocations, sleeps, result, "
             "breaker and budget calls, and what every sink received); distinct = outcome "
             "signature of the baseline; non-trivial = some failure or deviation"),
    "assumptions": ["attempt_timeout_s=None", "hook exceptions derive from Exception",
                    "a hook stub records the delivery before it raises"],
    "min_outcomes": {"quick": 8},
}


def bounds(tier):
    return {"faulty_hooks_per_run": 1 if tier == "quick" else 2, "max_attempts": 3,
            "exception_types": TYPES_QUICK if tier == "quick" else TYPES_ALL}


def tasks(tier):
    out = []
    brk = {"threshold": 1, "window": 8, "recovery": 2, "trip_on": ["T", "P"],
           "pre": [("fail", "T"), ("tick", 2)]}
    brk_closed = {"threshold": 1, "window": 8, "recovery": 2, "trip_on": ["T", "P"]}
    for e, b, bs_async in itertools.product(
            ["Policy.call", "Policy.execute", "AsyncPolicy.call", "AsyncPolicy.execute"],
            [brk, brk_closed], [False, True]):
        if bs_async and not e.startswith("Async"):
            continue
        cfg = dict(M=3, alphabet=["ok", "x:T", "r:T", "x:P"], abort=True, handler="call",
                   before_sleep="call", bs_async=bs_async, breaker=b, max_unknown=None,
                   budget={"max": 1, "window": 8}, timeline=True, operation="opname")
        out.append({"family": "hook-faults", "cfg": cfg, "entry": e, "bound": 2 if tier != "quick" else 1, "weight": 5})
    for e in ["Retry.execute", "AsyncRetry.execute", "Retry.call", "AsyncRetry.call"]:
        cfg = dict(M=3, alphabet=["ok", "x:T", "r:T", "x:U"], abort=True, before_sleep="policy",
                   deadline=4, durs=[0, 2], max_unknown=1, timeline="object", handler=None,
                   sleeper=None)
        out.append({"family": "hook-faults-retry", "cfg": cfg, "entry": e, "bound": 1, "weight": 4})
    for hk, e in itertools.product(["partial", "object"], ["Policy.call", "Retry.execute",
                                                           "AsyncPolicy.execute", "AsyncRetry.call"]):
        cfg = dict(M=3, alphabet=["ok", "x:T", "r:T", "x:P"], abort=True, before_sleep="call",
                   hook_kind=hk, max_unknown=None, timeline=True,
                   breaker=brk_closed if e.startswith(("Policy", "AsyncPolicy")) else None)
        out.append({"family": "hook-faults-kinds", "cfg": cfg, "entry": e, "bound": 1, "weight": 4})
    # hooks that take time (and then raise): with a deadline tight enough for that time to decide
    # whether another attempt fits
    for dl, e in itertools.product([3, 5], ["Retry.execute", "AsyncRetry.call", "Policy.call",
                                            "AsyncPolicy.execute"]):
        cfg = dict(M=3, alphabet=["ok", "x:T", "r:T"], hook_dur=1, deadline=dl, durs=[0, 1],
                   max_unknown=None, strat_menu=[1, 0], timeline=True,
                   breaker=brk_closed if e.startswith(("Policy", "AsyncPolicy")) else None)
        out.append({"family": "hook-faults-slow", "cfg": cfg, "entry": e, "bound": 1, "weight": 4})
    # a library jitter strategy drawing from the process-global random stream: a swallowed hook
    # failure must not consume draws
    for e in ["Retry.execute", "AsyncRetry.call", "Policy.call"]:
        cfg = dict(M=4, alphabet=["ok", "x:T", "r:T"], strat={"default": "libjitter", "per": {}},
                   global_rng=True, before_sleep="call", max_unknown=None, timeline=True,
                   breaker=brk_closed if e.startswith("Policy") else None)
        out.append({"family": "hook-faults-jitter", "cfg": cfg, "entry": e, "bound": 0, "weight": 4})
    # the process runs with warnings turned into errors
    for e in ["Retry.call", "Retry.execute", "AsyncRetry.call", "AsyncRetry.execute", "Policy.call",
              "AsyncPolicy.execute"]:
        cfg = dict(M=3, alphabet=["ok", "x:T", "r:T"], abort=True, before_sleep="call", warnings_error=True,
                   bs_async=e.startswith("Async"), max_unknown=None, timeline=True,
                   breaker=brk_closed if "Policy" in e else None)
        out.append({"family": "hook-faults-warnings-error", "cfg": cfg, "entry": e, "bound": 1, "weight": 4})
    for e in ["RetrySet.call", "AsyncRetrySet.execute", "RetryPolicySet.call",
              "AsyncRetryPolicySet.execute"]:
        cfg = dict(M=3, alphabet=["ok", "x:T", "r:T"], abort=True, before_sleep="policy",
                   sleeper="policy", max_unknown=None, bs_async=e.startswith("Async"))
        out.append({"family": "hook-faults-assigned", "cfg": cfg, "entry": e, "bound": 1, "weight": 4})
    return out


def fault_sets(w, tier):
    counts = {site: sum(1 for r in w.trace if r[0] == rec) for site, rec in SITES.items()}
    types_idx = TYPES_QUICK if tier == "quick" else TYPES_ALL
    sets = []
    for site, n in counts.items():
        if n == 0:
            continue
        for t in TYPES_ALL:
            sets.append([(site, "always", t)])
        for i in range(n):
            for t in types_idx:
                sets.append([(site, i, t)])
    if tier == "thorough":
        live = [s for s, n in counts.items() if n]
        for s1, s2 in itertools.combinations(live, 2):
            sets.append([(s1, "always", "RuntimeError"), (s2, "always", "ValueError")])
            for i in range(min(counts[s1], 3)):
                sets.append([(s1, i, "RuntimeError"), (s2, "always", "KeyError")])
                sets.append([(s1, i, "AbortRetryError"), (s2, i, "TimeoutError")])
        if len(live) == 3:
            sets.append([(s, "always", "RuntimeError") for s in live])
    return sets


def run_diff(cfg, entry, ch, tier):
    full = seq.mkcfg(**cfg)
    w = seq.World(full, ch)
    w.call(entry)
    ref = normalize(w.trace, 0.0)
    v = []
    n = 0
    for fs in fault_sets(w, tier):
        n += 1
        ch2 = diff_chooser(ch)
        try:
            w2 = seq.World(dict(full, faults=fs), ch2)
            w2.call(entry)
            if ch2.pos != len(ch2.prefix):
                raise Divergence(f"faulty run asked only {ch2.pos} of {len(ch2.prefix)} questions")
        except Divergence as ex:
            v.append((f"c15.diverge:{fs[0][0]}", f"hook fault {fs}: {ex}"))
            continue
        got = normalize(w2.trace, 0.0, drop=("fault",))
        d = first_diff(ref, got)
        if d is not None:
            v.append((f"c15.differ:{fs[0][0]}",
                      f"hook fault {fs}: run differs from the silent run at step {d[0]}: "
                      f"silent={d[1]} faulty={d[2]}"))
    # a hook that fails at the call boundary (a C callable with the wrong arity): it records
    # nothing, so that hook's records are left out on both sides
    for site in ("metric", "log"):
        if not full[site] or full["boundary_hook"] or full["hook_dur"]:
            continue   # (hooks that take time are a dimension of their own: an uncallable hook takes none)
        n += 1
        ch2 = diff_chooser(ch)
        try:
            w2 = seq.World(dict(full, boundary_hook=site), ch2)
            w2.call(entry)
            if ch2.pos != len(ch2.prefix):
                raise Divergence(f"faulty run asked only {ch2.pos} of {len(ch2.prefix)} questions")
        except Divergence as ex:
            v.append((f"c15.diverge:{site}", f"uncallable {site} hook: {ex}"))
            continue
        d = first_diff(normalize(w.trace, 0.0, drop=(site,)), normalize(w2.trace, 0.0, drop=(site,)))
        if d is not None:
            v.append((f"c15.differ:{site}",
                      f"uncallable {site} hook (TypeError at the call boundary): run differs from "
                      f"the silent run at step {d[0]}: silent={d[1]} faulty={d[2]}"))
    w.extra_runs = n
    return w, v


def run_task(task, seed):
    tier = task.get("tier", "quick")
    return explore_task(task, seed, lambda cfg, e, ch: run_diff(cfg, e, ch, tier))


def replay(doc):
    return run_diff(doc["cfg"], doc["entry"], Chooser(tuple(doc["choices"])),
                    doc["extra"].get("tier", "quick"))
