"""C10 - shared retry budget: at most max_retries retries per rolling window."""

from __future__ import annotations

import itertools

from ..kernel import Chooser
from ..lazy import seq
from ..seqcheck import explore_task

PID = "C10"

META = {
    "level": "model_checking",
    "engine": "E2 state + E1 seq",
    "rule": ("explicit-state BFS over histories consume(1) | consume(2) | remaining() | tick(d in "
             "{1, W-1, W, W+1}) on the real Budget for max_retries in {0..3} x window in {2,3} "
             "ticks, deduplicated on time-translated grant ages, every transition compared with a "
             "list-of-grants reference under a consistent boundary convention, and the sliding "
             "window invariant re-checked from observed grant instants alone; E1: sync and async "
             "policies sharing one budget, <= 4 always-failing/mixed calls interleaved with "
             "ticks; distinct = canonical states"),
    "assumptions": ["a grant exactly window_s old: counted or not, consistently along a history",
                    "window for the invariant is the half-open interval (t-W, t]"],
    "min_outcomes": {"quick": 5},
}


def bounds(tier):
    return {"depth": 9 if tier == "quick" else 11, "shared_calls": 3}


def tasks(tier):
    depth = 9 if tier == "quick" else 11
    out = []
    for mx, W in itertools.product([0, 1, 2, 3], [2, 3]):
        out.append({"family": "budget-raw", "cfg": {"max": mx, "window": W}, "entry": "Budget",
                    "bound": depth, "weight": 5})
    for mx, W in [(1, 2), (2, 3), (1, 3)]:
        out.append({"family": "budget-raw", "cfg": {"max": mx, "window": W, "frac_tick": True},
                    "entry": "Budget", "bound": depth - 2, "weight": 5})
    out.append({"family": "budget-raw", "cfg": {"max": 70, "window": 2, "big": True},
                "entry": "Budget", "bound": 6, "weight": 5})
    for mx, W in [(1, 2), (2, 3)]:
        out.append({"family": "budget-raw", "cfg": {"max": mx, "window": W, "widen": True},
                    "entry": "Budget", "bound": depth - 2, "weight": 5})
    for mx, W, pat in itertools.product([0, 1, 2], [2, 4],
                                        [("Retry.execute", "AsyncRetry.call"),
                                         ("Policy.call", "AsyncRetry.execute"),
                                         ("Retry.call", "Retry.execute"),
                                         ("RetryCfg.call", "AsyncRetryCfg.execute"),
                                         ("RetryPolicyCfg.execute", "Retry.call"),
                                         ("RetryPolicySet.call", "AsyncRetryPolicySet.execute")]):
        cfg = dict(M=3 if tier == "thorough" else 2,
                   alphabet=["x:T", "ok", "r:T"] if tier == "thorough" else ["x:T", "ok"],
                   max_unknown=None,
                   budget={"max": mx, "window": W}, strat_menu=[1, 0], durs=[0, W - 1])
        prefixes = [["ok"]] + [[a, b2] for a in ("x:T", "r:T") for b2 in ("ok", "x:T", "r:T")]
        for sp in prefixes if (mx == 2 and tier == "thorough") else [None]:
            out.append({"family": "budget-shared", "cfg": dict(cfg, script_prefix=sp),
                        "entry": pat[0], "bound": 1, "entries": list(pat),
                        "ncalls": 3, "ticks": sorted({0, 1, W}),
                        "weight": 9 if mx == 2 else 4})
    # result-classified failures through every call style
    for mx, pat in itertools.product([1, 2], [("AsyncRetry.call", "Retry.execute"), ("Retry.call", "AsyncRetry.execute"),
                                              ("AsyncPolicy.call", "Policy.execute")]):
        cfg = dict(M=3, alphabet=["r:T", "ok"], max_unknown=None, budget={"max": mx, "window": 8},
                   strat_menu=[1])
        out.append({"family": "budget-shared", "cfg": cfg, "entry": pat[0], "bound": 0,
                    "entries": list(pat), "ncalls": 2, "ticks": [0], "weight": 4})
    # failures that carry a Retry-After hint (Classification objects) with a strategy answering at
    # least the hint: such retries are charged to the budget like any other
    for mx, st, pat in itertools.product([1, 2], [{"default": "ctx", "per": {}}, {"default": "libnested", "per": {}}],
                                         [("Retry.execute", "AsyncRetry.call"), ("AsyncPolicy.execute", "Policy.call"),
                                          ("RetryPolicy.call", "Retry.call")]):
        cfg = dict(M=3, alphabet=["x:R+ra", "ok", "r:R+ra", "x:T"], ra_ticks=1, max_unknown=None,
                   budget={"max": mx, "window": 8}, strat=st, strat_menu=[1, 2])
        out.append({"family": "budget-shared", "cfg": cfg, "entry": pat[0], "bound": 1,
                    "entries": list(pat), "ncalls": 2, "ticks": [0, 1], "weight": 6})
    # an abort request arrives while a granted retry is running: the token stays spent
    for mx, pat in itertools.product([1, 2], [("Retry.execute", "AsyncRetry.call"),
                                              ("AsyncRetry.execute", "Policy.call")]):
        cfg = dict(M=3, alphabet=["x:T", "ok"], max_unknown=None, abort=True, abort_mode="flag",
                   budget={"max": mx, "window": 8}, strat_menu=[1])
        out.append({"family": "budget-shared", "cfg": cfg, "entry": pat[0], "bound": 2,
                    "entries": list(pat), "ncalls": 2, "ticks": [0], "weight": 6})
    return out


def monitor_shared(w, cfg):
    """Every retry event is a grant, every budget_exhausted stop a legitimate refusal."""
    from ..brkspec import BudgetSpec
    from ..statebfs import window_invariant
    v = []
    b = cfg["budget"]
    W = b["window"] * 0.125
    grants = []
    retries = []   # instants of retries actually granted (retry events) + tokens taken by others
    specs = {inc: BudgetSpec(b["max"], W, inc) for inc in (False, True)}
    pending_retry = 0
    last_consume_t = 0.0
    refused = False     # the budget refused this call's retry: nothing more may be attempted
    for r in w.trace:
        if r[0] == "call":
            refused = False
        elif r[0] in ("op", "sleep") and refused:
            v.append(("c10.retry-after-refusal",
                      f"{r[0]} {r[1:3]} performed after the budget had refused the retry"))
            refused = False
        if r[0] in ("consume", "consume_x"):
            t = r[2]
            for inc, s in list(specs.items()):
                if s.consume(1, t) != r[1]:
                    del specs[inc]
            if not specs:
                v.append(("c10.budget-diverges", f"consume() at t={t} answered {r[1]} with grants "
                                                 f"{grants}; no reference convention agrees"))
                break
            if r[0] == "consume_x":
                if r[1]:
                    grants.append(t)
                    retries.append(t)
                continue
            last_consume_t = t
            if r[1]:
                grants.append(t)
                pending_retry += 1
            else:
                pending_retry = -1000
                refused = True
        elif r[0] == "metric" and r[1] == "retry":
            retries.append(last_consume_t)
            pending_retry -= 1
            if pending_retry < 0:
                v.append(("c10.retry-without-grant", "a retry was granted without a budget token"))
                pending_retry = 0
        elif r[0] == "metric" and r[1] == "budget_exhausted":
            live = sum(1 for g in retries if last_consume_t - g <= W)
            if live + 1 <= b["max"]:
                v.append(("c10.refused-while-not-full",
                          f"BUDGET_EXHAUSTED at t={last_consume_t} although only {live} retries were "
                          f"granted in the last {W}s (max_retries={b['max']}); retries at {retries}"))
            if pending_retry > -500:
                v.append(("c10.exhausted-without-refusal", "BUDGET_EXHAUSTED reported although "
                                                           "the budget did not refuse"))
            pending_retry = 0
        elif r[0] == "end":
            pending_retry = 0
    inv = window_invariant({"max": b["max"], "window": b["window"]},
                           [g + 1000.0 for g in grants])
    if inv:
        v.append(("c10.window-invariant", inv))
    return v


def run_shared(cfg, entry, ch, entries, ncalls, ticks):
    full = seq.mkcfg(**cfg)
    w = seq.World(full, ch)
    for k in range(ncalls):
        if k:
            t = ticks[ch.choose("tick", len(ticks), True)]
            if t:
                w.tick(t)
        w.call(entries[k % len(entries)])
    return w, monitor_shared(w, full)


def run_task(task, seed):
    if task["family"] == "budget-raw":
        from .. import statebfs
        return statebfs.bfs_budget(task["cfg"], task["bound"], seed)
    es, n, tk = task["entries"], task["ncalls"], task["ticks"]
    return explore_task(task, seed, lambda cfg, e, ch: run_shared(cfg, e, ch, es, n, tk))


def replay(doc):
    if doc["family"] == "budget-raw":
        from .. import statebfs
        hist = tuple(tuple(e) for e in doc["choices"])
        b, clock, specs, last, grants = statebfs.replay_budget(doc["cfg"], hist)

        class W:
            trace = [("history", hist), ("last", last), ("grants", grants),
                     ("live_conventions", sorted(specs))]
        bad = (not specs) or statebfs.window_invariant(doc["cfg"], grants)
        return W, ([(doc["key"], doc["message"])] if bad else [])
    x = doc["extra"]
    return run_shared(doc["cfg"], doc["entry"], Chooser(tuple(doc["choices"])), x["entries"],
                      x["ncalls"], x["ticks"])
