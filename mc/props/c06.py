"""C06 - breaker opens exactly when counted failures reach a threshold in the window."""

from __future__ import annotations

import itertools

from ..kernel import Chooser
from ..lazy import seq
from ..seqcheck import explore_task

PID = "C06"
CLASSES = ["T", "S", "R", "U"]

META = {
    "level": "model_checking",
    "engine": "E2 state (+E1 seq at policy level)",
    "rule": ("explicit-state BFS over histories allow | record_success | record_failure(K in "
             "{T,S,R,U}) | record_cancel | tick(d in {1, W-1, W, W+1, Trec} ticks; W +- 0.4 ms in the off-lattice configurations) on the real "
             "CircuitBreaker, for every configuration of a lattice (threshold x window x recovery "
             "x class thresholds x trip_on), deduplicated on the time-translated implementation "
             "state plus reference state; every transition compared with a list-of-failures "
             "reference model under a consistent boundary convention; states with equal canonical "
             "form are spot-checked for equal futures; policy level: <= 4 sequential "
             "Policy.call/execute with clock advances, operation invoked iff the reference admits; "
             "distinct = canonical states"),
    "assumptions": ["records with no call outstanding while half-open are outside the statements "
                    "and not generated", "age exactly window_s / elapsed exactly "
                    "recovery_timeout_s: either reading, but the same one along a history"],
    "min_outcomes": {"quick": 6},
}


def bounds(tier):
    return {"depth": 7 if tier == "quick" else 9, "policy_calls": 4}


def configs(tier):
    out = []
    for thr, W, R, ct, trip in itertools.product(
            [1, 2, 3], [2, 4], [2, 3, 5],
            [{}, {"R": 1}, {"T": 2}, {"R": 2, "T": 3}],
            [None, ["T"], ["T", "U"], []]):
        if tier == "quick" and ((thr == 3 and W == 2) or (R == 3 and ct) or (thr == 1 and len(ct) == 2)
                                or (trip == [] and (thr == 3 or len(ct) == 2 or R == 5))):
            continue
        out.append({"threshold": thr, "window": W, "recovery": R, "class_thresholds": ct,
                    "trip_on": trip})
    # the clock's reference point makes its readings negative (and they cross zero)
    for thr, ct in [(2, {}), (3, {}), (3, {"R": 2})]:
        out.append({"threshold": thr, "window": 2, "recovery": 2, "class_thresholds": ct,
                    "trip_on": ["T", "U"], "t0": -3})
    # instants off the tick lattice: a failure 0.4 ms older than the window does not count, one
    # 0.4 ms younger does
    for thr, W, ct in [(2, 2, {}), (2, 4, {"R": 2}), (3, 4, {})]:
        out.append({"threshold": thr, "window": W, "recovery": 3, "class_thresholds": ct,
                    "trip_on": None, "frac_tick": True})
    # trip_on handed over as a one-shot iterable (generator / map / iter), which set() accepts
    for thr, ct in [(2, {}), (2, {"R": 1}), (1, {})]:
        out.append({"threshold": thr, "window": 4, "recovery": 2, "class_thresholds": ct,
                    "trip_on": ["T", "U"], "trip_iter": True})
    return out


def tasks(tier):
    depth = 7 if tier == "quick" else 9
    out = [{"family": "raw", "cfg": c, "entry": "CircuitBreaker", "bound": depth, "weight": 3}
           for c in configs(tier)]
    # policy level: sequential calls with clock advances on a real breaker
    for thr, W, R, e in itertools.product([1, 2], [2, 4], [2, 3],
                                          ["Policy.call", "Policy.execute", "AsyncPolicy.call",
                                           "AsyncPolicy.execute", "Policy0.call", "AsyncPolicy0.execute"]
                                          if tier == "thorough" else
                                          ["Policy.call", "AsyncPolicy.execute", "Policy0.call",
                                           "AsyncPolicy0.execute"]):
        cfg = dict(M=2 if tier == "quick" else 1, alphabet=["ok", "x:T", "x:R", "abort"],
                   max_unknown=None,
                   breaker={"threshold": thr, "window": W, "recovery": R, "trip_on": ["T"],
                            "class_thresholds": {"R": 1} if thr == 2 else {}})
        out.append({"family": "policy-seq", "cfg": cfg, "entry": e, "bound": 0,
                    "ncalls": 3 if tier == "quick" else 5,
                    "ticks": sorted({0, W, R}) if tier == "quick" else sorted({0, 1, W, R}),
                    "weight": 4})
    return out


def run_policy_seq(cfg, entry, ch, ncalls, ticks):
    """Sequential policy calls: the operation is invoked iff the reference breaker admits, and
    the breaker's state follows the reference (C06 at policy level; also serves C07)."""
    from .. import statebfs
    from ..brkspec import CONVENTIONS
    from ..tracelib import split_calls
    full = seq.mkcfg(**cfg)
    w = seq.World(full, ch)
    for k in range(ncalls):
        if k:
            t = ticks[ch.choose("tick", len(ticks), True)]
            if t:
                w.tick(t)
        w.call(entry)
    v = []
    specs = {c: statebfs.make_spec(full["breaker"], c) for c in CONVENTIONS}
    for call in split_calls(w.trace):
        now = call.t_start + statebfs.E.T0
        brk = [r for r in call.records if r[0] == "brk"]
        pre_abort = any(r[0] == "poll" and r[1] for r in call.pre) and entry.split(".")[0].endswith("0")
        if pre_abort:
            continue
        if not brk or brk[0][1] != "allow":
            v.append(("c06.policy-no-allow", f"call {call.k} did not consult the breaker first"))
            break
        got = brk[0][3]
        for c, s in list(specs.items()):
            adm, st, ev, cid = s.start(now)
            if (adm, st, ev) != tuple(got):
                del specs[c]
                continue
            s._cur = cid
        if not specs:
            v.append(("c06.policy-admission", f"call {call.k}: breaker answered {got}, no reference "
                                              f"convention agrees"))
            break
        if bool(call.ops) != bool(got[0]):
            v.append(("c07.invoked-iff-admitted", f"call {call.k}: admitted={got[0]} but operation "
                                                  f"invoked {len(call.ops)} times"))
        for r in brk[1:]:
            # settlement instant: the virtual time does not advance inside the library
            t_set = (call.ops[-1].t1 if call.ops else call.t_start)
            sl = [x for x in call.records if x[0] == "sleep"]
            if sl:
                t_set = max(t_set, sl[-1][4])
            t_set += statebfs.E.T0
            for c, s in list(specs.items()):
                want = s.settle(s._cur, {"success": "success", "failure": "failure",
                                         "cancel": "cancel"}[r[1]], r[2], t_set)
                if want != r[3] or s.mode != r[4]:
                    del specs[c]
            if not specs:
                v.append(("c06.policy-record", f"call {call.k}: breaker {r[1]}({r[2]}) -> {r[3]} "
                                               f"state {r[4]}; no reference convention agrees"))
                break
        if not specs:
            break
    return w, v


def run_task(task, seed):
    if task["family"] == "raw":
        from .. import statebfs
        return statebfs.bfs_raw(task["cfg"], task["bound"], CLASSES, seed)
    n, tk = task["ncalls"], task["ticks"]
    return explore_task(task, seed, lambda cfg, e, ch: run_policy_seq(cfg, e, ch, n, tk))


def replay(doc):
    if doc["family"] == "raw":
        from .. import statebfs
        hist = tuple(tuple(e) for e in doc["choices"])
        b, clock, specs, last, undefined = statebfs.replay_raw(doc["cfg"], hist)

        class W:
            trace = [("history", hist), ("last", last), ("impl_state", b.state.value),
                     ("live_conventions", sorted(specs))]
        ok = any(s.mode == b.state.value for s in specs.values())
        return W, ([] if ok else [(doc["key"], doc["message"])])
    return run_policy_seq(doc["cfg"], doc["entry"], Chooser(tuple(doc["choices"])),
                          doc["extra"]["ncalls"], doc["extra"]["ticks"])
