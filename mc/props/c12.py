"""C12 - all entry points agree: sync/async, call/execute, Policy/Retry/sugar."""

from __future__ import annotations

import itertools

from ..kernel import Chooser
from ..lazy import seq
from ..seqcheck import Divergence, diff_chooser, explore_task
from ..tracelib import first_diff, normalize

PID = "C12"
REF = "Retry.execute"
SYNC = ["Retry.call", "Retry.execute", "Retry.context", "RetryCfg.call", "Policy.call",
        "Policy.execute", "Policy.context", "RetryPolicy.call", "RetryPolicy.execute",
        "RetryPolicy.context", "RetryPolicyCfg.call", "deco"]
ASYNC = ["AsyncRetry.call", "AsyncRetry.execute", "AsyncRetry.context", "AsyncRetryCfg.call",
         "AsyncPolicy.call", "AsyncPolicy.execute", "AsyncPolicy.context",
         "AsyncRetryPolicy.call", "AsyncRetryPolicy.execute", "AsyncRetryPolicy.context",
         "AsyncRetryPolicyCfg.call", "adeco"]
ALL24 = SYNC + ASYNC
NO_DECO = [e for e in ALL24 if "deco" not in e] + ["RetryPolicySet.call", "AsyncRetryPolicySet.execute",
                                                    "RetrySet.execute", "AsyncRetrySet.call"]
POLICY6 = ["Policy.call", "Policy.execute", "Policy.context", "AsyncPolicy.call",
           "AsyncPolicy.execute", "AsyncPolicy.context",
           # the wrappers, with the breaker attached through their .policy container
           "RetryPolicy.call", "RetryPolicy.execute", "AsyncRetryPolicy.call",
           "AsyncRetryPolicy.execute"]
ALPHA = ["ok", "x:T", "x:U", "x:P", "r:T", "abort"]

META = {
    "level": "model_checking",
    "engine": "E1 seq (differential)",
    "rule": ("the answer-script tree is explored on Retry.execute (all outcome sequences free, all "
             "other environment answers as bounded deviations); every complete script is then "
             "replayed on each of the other 23 entry points, which must ask the same questions in "
             "the same order and produce the same normalised trace; call/execute deliveries must "
             "correspond; breaker interactions compared among the six Policy entry points; "
             "distinct = (end kind, reason, attempts, failure sequence) of the reference run"),
    "assumptions": ["attempt_timeout_s=None", "classifier calls are not part of the compared trace "
                    "(Policy.call classifies the final exception again for the breaker)",
                    "attempt hooks and classifiers return normally"],
    "min_outcomes": {"quick": 8},
}


def bounds(tier):
    return {"entry_points": 24, "max_attempts": [1, 2, 3],
            "deviation_bound": 1 if tier == "quick" else 2}


def tasks(tier):
    out = []
    bound = 1 if tier == "quick" else 2
    base = dict(alphabet=ALPHA, durs=[0, 2], overshoot=[0, 2], abort=True, strat_menu=[1, 9, "nan"],
                operation="opname", attempt_hooks="call")
    cfgs = []
    for M, pc, mu, dl, bud in itertools.product(
            [2, 3], [{}, {"T": 1}], [None, 1], [None, 3],
            [None, {"max": 1, "window": 8}] if tier == "thorough" else [None]):
        cfgs.append(dict(base, M=M, per_class=pc, max_unknown=mu, deadline=dl, budget=bud,
                         strat={"default": "ctx", "per": {}} if not pc else
                         {"default": "legacy", "per": {"T": "ctx"}}))
    cfgs.append(dict(base, M=1, budget={"max": 1, "window": 8}))
    cfgs.append(dict(base, M=3, strat_obj=True, max_unknown=None))
    # attempt_timeout_s: an attempt that hangs past the timeout, then further attempts
    cfgs.append(dict(base, M=3, attempt_timeout=2, durs=[0, 5, 1], max_unknown=None, deadline=None))
    cfgs.append(dict(base, M=3, budget={"max": 1, "window": 8}, deadline=3))
    # the operation itself raises the library's own exceptions (a nested policy ran out / a nested
    # breaker is open) and cancellation-type exceptions
    cfgs.append(dict(base, M=3, max_unknown=None, alphabet=ALPHA + ["nested", "coe", "kbd"]))
    # no strategy at all (strategy=None, strategies={}): every entry point stops at the first failure
    cfgs.append(dict(base, M=3, max_unknown=None, strat={"default": None, "per": {}, "per_empty": True}))
    # nobody observes the run
    cfgs.append(dict(base, M=3, max_unknown=None, metric=False, log=False, attempt_hooks=None,
                     abort=False, operation=None))
    # attempt_timeout_s longer than the deadline: an attempt that outlives the deadline but not
    # its own timeout is treated alike by the sync and the async runners
    cfgs.append(dict(base, M=3, attempt_timeout=6, durs=[0, 4, 1], max_unknown=None, deadline=3))
    # callbacks that are falsy callable objects (every entry point must honour them alike)
    cfgs.append(dict(base, M=3, max_unknown=None, callable_kind="falsy"))
    # async entry points are handed callbacks that return awaitable objects (not coroutines)
    cfgs.append(dict(base, M=3, max_unknown=None, async_awaitables=True))
    # time passes inside the sleep handler (a handler that flushes logs, a before_sleep that blocks)
    cfgs.append(dict(base, M=3, max_unknown=None, handler_durs=[0, 2], hook_dur=1, deadline=None))
    # failures carrying a Retry-After hint longer than the delay of a strategy that ignores hints
    cfgs.append(dict(base, M=3, max_unknown=None, alphabet=["ok", "x:R+ra", "r:R+ra", "x:T+ra"], ra_ticks=9,
                     strat={"default": "legacy", "per": {}}, strat_menu=[1, 3], deadline=None))
    for cfg in cfgs:
        # family 1: callbacks at policy level, decorator included
        cfg.setdefault("strat", {"default": "ctx", "per": {}})
        c1 = dict(cfg, handler="policy", before_sleep="policy", sleeper="policy")
        # family 2: callbacks per call, decorator left out
        c2 = dict(cfg, handler="call", before_sleep="call", sleeper="call")
        # family 3: no handler, library default sleeper, breaker attached (Policy entries only)
        c3 = dict(cfg, handler="call" if cfg["M"] == 2 else None, sleeper=None,
                  # library exceptions raised by the operation itself are left out here: how such
                  # an ending is recorded with the breaker is not defined by the statements (C09
                  # accepts any single record) and call/execute do differ (observation, DESIGN 11.2)
                  alphabet=[a for a in cfg["alphabet"] if a not in ("nested", "coe")]
                  + (["kbd", "cancel"] if cfg["M"] == 2 else []),
                  breaker={"threshold": 1, "window": 8, "recovery": 2, "trip_on": ["T", "U", "P"]})
        c4 = dict(cfg, handler="both", before_sleep="both", sleeper="both")
        for first in cfg["alphabet"]:
            w = 1 if first in ("ok", "x:P", "abort") else 6
            if first in ("nested", "coe"):
                w = 1
            if cfg.get("budget") is None and cfg["M"] == 3:
                out.append({"family": "agree-both-levels", "cfg": dict(c4, script_prefix=[first]),
                            "entry": REF, "bound": bound, "variants": NO_DECO, "weight": w})
            out.append({"family": "agree-policy-level", "cfg": dict(c1, script_prefix=[first]),
                        "entry": REF, "bound": bound, "variants": ALL24, "weight": w})
            out.append({"family": "agree-call-level", "cfg": dict(c2, script_prefix=[first]),
                        "entry": REF, "bound": bound, "variants": NO_DECO, "weight": w})
            if first in c3["alphabet"]:
                out.append({"family": "agree-breaker", "cfg": dict(c3, script_prefix=[first]),
                            "entry": "Policy.execute", "bound": bound, "variants": POLICY6,
                            "weight": w // 2 + 1})
    # retry-less policies: breaker state x abort request on entry
    P0 = ["Policy0.call", "Policy0.execute", "AsyncPolicy0.call", "AsyncPolicy0.execute"]
    for pre in ([], [("fail", "T")], [("fail", "T"), ("tick", 2)]):
        cfg = dict(M=1, alphabet=["ok", "x:T", "x:P", "abort"], abort=True, operation="opname",
                   breaker={"threshold": 1, "window": 8, "recovery": 2, "trip_on": ["T", "U", "P"],
                            "pre": pre})
        out.append({"family": "agree-noretry", "cfg": cfg, "entry": "Policy0.execute", "bound": 2,
                    "variants": P0})
    return out


DROP = ("classify", "call", "susp", "astart", "aend")


def delivery(norm_end):
    """Canonical 'final result' of a normalised end record, comparable between call/execute."""
    e = norm_end
    if e[1] == "ret":
        return ("value", e[2])
    if e[1] == "outcome":
        _, _, ok, val, reason, attempts, lk, lexc, lres, cause, nxt = e[:11]
        if ok:
            return ("value", val)
        if reason == "ABORTED":
            return ("aborted",)
        if reason is None and isinstance(lexc, str) and lexc.startswith("foreign:"):
            # a rejected call: the outcome carries the CircuitOpenError the library created
            return ("raised", lexc.split(":", 1)[1])
        if cause == "result" or reason == "SCHEDULED":
            return ("exhausted", reason, attempts, lk, lexc, lres, nxt)
        if cause == "exception":
            if isinstance(lexc, str) and lexc.startswith("foreign:"):
                return ("raised", lexc.split(":", 1)[1])   # an exception created by the library
            return ("exception", lexc)
        return ("failed", reason, attempts, lk, lexc, lres, nxt)
    if e[1] == "raise":
        _, _, tname, ident, det, _tb = e
        if tname == "AbortRetryError":
            return ("aborted",)
        if tname == "RetryExhaustedError" and det is not None and not isinstance(ident, tuple):
            return ("exhausted",) + tuple(det)
        if isinstance(ident, tuple):
            return ("exception", ident)
        return ("raised", tname)
    return (e[1],)


def compare(ref_w, var_w, ref_entry, entry):
    a = normalize(ref_w.trace, ref_w.trace[0][3], drop=DROP)
    b = normalize(var_w.trace, var_w.trace[0][3], drop=DROP)
    a_end, b_end = a[-1], b[-1]
    d = first_diff(a[:-1], b[:-1])
    if d is not None:
        return f"step {d[0]}: {ref_entry} -> {d[1]} but {entry} -> {d[2]}"
    same_mode = ref_entry.endswith("execute") == entry.endswith("execute")
    if same_mode:
        if a_end[:11] != b_end[:11]:
            return f"final result differs: {ref_entry} -> {a_end} but {entry} -> {b_end}"
        return None
    da, db = delivery(a_end), delivery(b_end)
    if da != db:
        return (f"deliveries do not correspond: {ref_entry} -> {da} ({a_end}) but {entry} -> "
                f"{db} ({b_end})")
    return None


def run_diff(cfg, entry, ch, variants):
    full = seq.mkcfg(**cfg)
    w = seq.World(full, ch)
    w.call(entry)
    v = []
    n = 0
    for e in variants:
        if e == entry:
            continue
        n += 1
        ch2 = diff_chooser(ch)
        try:
            full2 = full
            if full["attempt_timeout"] is not None and (e.startswith("Async") or e == "adeco"):
                full2 = dict(full, loop=True, sleeper_async=True)
            if full["async_awaitables"] and (e.startswith("Async") or e == "adeco"):
                full2 = dict(full2, sleeper_async=True, bs_async=True, awaitable="object")
            w2 = seq.World(full2, ch2)
            w2.call(e)
            if ch2.pos != len(ch2.prefix):
                raise Divergence(f"{e} asked only {ch2.pos} of {len(ch2.prefix)} questions")
        except Divergence as ex:
            v.append((f"c12.diverge:{e}", f"{e} vs {entry}: {ex}"))
            continue
        msg = compare(w, w2, entry, e)
        if msg:
            v.append((f"c12.differ:{e}", msg))
    w.extra_runs = n
    return w, v


def run_task(task, seed):
    variants = task["variants"]
    return explore_task(task, seed, lambda cfg, e, ch: run_diff(cfg, e, ch, variants))


def replay(doc):
    return run_diff(doc["cfg"], doc["entry"], Chooser(tuple(doc["choices"])),
                    doc["extra"]["variants"])
