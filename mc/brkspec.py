"""Reference models for CircuitBreaker and Budget, written from the property statements.

Boundary ages are don't-cares in the statements (an entry exactly ``window_s`` old, an open
circuit exactly ``recovery_timeout_s`` old).  Each model therefore takes a *convention* and the
checks require the implementation to agree with at least one convention **consistently over
the whole history** (subset construction over the conventions).
"""

from __future__ import annotations

CLOSED, OPEN, HALF = "closed", "open", "half_open"

CONVENTIONS = [(wi, ri) for wi in (False, True) for ri in (False, True)]
# wi: a failure exactly window_s old still counts;  ri: recovery admits at exactly the timeout


class BreakerSpec:
    """List-of-failures model of the breaker with call identities.

    ``start(now)`` -> (admitted, state, event) and, when admitted, a call id;
    ``settle(cid, kind, klass, now)`` -> event.  Calls that were never admitted have cid None.
    """

    def __init__(self, threshold, window, recovery, trip_on, class_thresholds, conv=(False, True)):
        self.threshold = threshold
        self.window = window
        self.recovery = recovery
        self.class_thresholds = dict(class_thresholds or {})
        self.trip_on = set(trip_on) | set(self.class_thresholds)
        self.win_incl, self.rec_incl = conv
        self.mode = CLOSED
        self.opened_at = None
        self.probe = None          # call id of the outstanding probe, or None
        self.fails = []            # (t, klass) since the last transition
        self.next_id = 0
        self.epoch = 0             # increases at every open / half-open / close transition
        self.admitted_epoch = {}   # cid -> epoch at admission

    def clone(self):
        c = BreakerSpec.__new__(BreakerSpec)
        c.__dict__.update(self.__dict__)
        c.fails = list(self.fails)
        c.admitted_epoch = dict(self.admitted_epoch)
        return c

    def key(self, now):
        return (self.mode, self.probe is not None,
                None if self.opened_at is None else now - self.opened_at,
                tuple((now - t, k) for t, k in self.fails))

    def _due(self, now):
        age = now - self.opened_at
        return age >= self.recovery if self.rec_incl else age > self.recovery

    def _in_window(self, t, now):
        age = now - t
        return age <= self.window if self.win_incl else age < self.window

    def start(self, now):
        """A call asks for admission.  Returns (admitted, state, event, cid)."""
        if self.mode == OPEN:
            if self._due(now):
                self.mode = HALF
                self.epoch += 1
                cid = self._new(now)
                self.probe = cid
                return True, HALF, "circuit_half_open", cid
            return False, OPEN, "circuit_rejected", None
        if self.mode == HALF:
            if self.probe is not None:
                return False, HALF, "circuit_rejected", None
            cid = self._new(now)
            self.probe = cid
            return True, HALF, None, cid
        return True, CLOSED, None, self._new(now)

    def _new(self, now):
        cid = self.next_id
        self.next_id += 1
        self.admitted_epoch[cid] = self.epoch
        return cid

    def is_stale(self, cid):
        """True if cid was admitted before the current half-open episode began."""
        return cid is None or self.admitted_epoch.get(cid, -1) < self.epoch

    def settle(self, cid, kind, klass, now):
        """Identity-aware settlement.  Only the probe's own result moves a half-open circuit."""
        if self.mode == HALF:
            if cid is not None and cid == self.probe:
                if kind == "success":
                    self.mode = CLOSED
                    self.opened_at = None
                    self.probe = None
                    self.fails = []
                    self.epoch += 1
                    return "circuit_closed"
                if kind == "failure":
                    self.mode = OPEN
                    self.opened_at = now
                    self.probe = None
                    self.fails = []
                    self.epoch += 1
                    return "circuit_opened"
                self.probe = None
                return None
            return None  # a stale call cannot move a half-open circuit
        if self.mode == OPEN:
            return None
        if kind != "failure":
            return None
        if klass not in self.trip_on:
            return None
        self.fails.append((now, klass))
        live = [(t, k) for t, k in self.fails if self._in_window(t, now)]
        opened = len(live) >= self.threshold
        ct = self.class_thresholds.get(klass)
        if ct is not None and sum(1 for t, k in live if k == klass) >= ct:
            opened = True
        if opened:
            self.mode = OPEN
            self.opened_at = now
            self.fails = []
            self.epoch += 1
            return "circuit_opened"
        return None

    # anonymous API (no identities): what the raw CircuitBreaker methods mean when exactly
    # the outstanding probe (if any) is the caller
    def record_anonymous(self, kind, klass, now):
        cid = self.probe if self.mode == HALF else -1
        if self.mode == HALF and cid is None:
            # half-open with no probe outstanding: success/failure still come from *some* call
            # admitted earlier; the statement does not say what they do -> mirror the probe rule
            self.probe = -2
            cid = -2
            self.admitted_epoch[cid] = self.epoch
        return self.settle(cid, kind, klass, now)


class BudgetSpec:
    def __init__(self, max_retries, window, incl=False):
        self.max = max_retries
        self.window = window
        self.incl = incl
        self.grants = []

    def clone(self):
        c = BudgetSpec(self.max, self.window, self.incl)
        c.grants = list(self.grants)
        return c

    def live(self, now):
        if self.incl:
            return sum(1 for g in self.grants if now - g <= self.window)
        return sum(1 for g in self.grants if now - g < self.window)

    def consume(self, cost, now):
        if self.live(now) + cost > self.max:
            return False
        self.grants.extend([now] * cost)
        return True

    def remaining(self, now):
        return max(self.max - self.live(now), 0)
