"""Kernel and canary self-tests (MANIFEST.setup_cmd).  Exit 0 = harness fit for use."""

from __future__ import annotations

from .kernel import Chooser, ReplayMismatch, explore


def _toy(ch):
    # three binary deviation points and one free ternary point
    a = ch.choose("a", 2)
    b = ch.choose("b", 3, free=True)
    c = ch.choose("c", 2)
    d = ch.choose("d", 2) if a else 0
    return (a, b, c, d)


def kernel_tests():
    seen = []
    n, capped = explore(_toy, 1, lambda ch, r: seen.append(r))
    # bound 1: b free (3) x {no dev, a, c, (a then d is 2 devs: excluded)} => 3*3 = 9
    assert n == 9 and not capped and len(set(seen)) == 9, (n, seen)
    seen.clear()
    n, _ = explore(_toy, 3, lambda ch, r: seen.append(r))
    assert n == 3 * (2 + 4) and len(set(seen)) == n, n  # a=0: c in 2; a=1: c,d in 4
    # replay fidelity: a run whose structure depends on hidden state must be rejected
    flip = {"v": 0}

    def nondet(ch):
        flip["v"] += 1
        ch.choose("x", 2)
        return ch.choose("y" if flip["v"] % 2 else "z", 2)

    try:
        explore(nondet, 2, lambda ch, r: None)
    except ReplayMismatch:
        pass
    else:
        raise AssertionError("replay mismatch not detected")
    # out-of-range replay
    try:
        Chooser((5,), None).choose("k", 2)
    except ReplayMismatch:
        pass
    else:
        raise AssertionError("out-of-range choice accepted")
    # determinism self-check
    cnt = {"v": 0}

    def drift(ch):
        cnt["v"] += 1
        ch.choose("x", 2)
        return cnt["v"]

    try:
        explore(drift, 1, lambda ch, r: None, selfcheck_every=1, same=lambda a, b: a == b)
    except ReplayMismatch:
        pass
    else:
        raise AssertionError("nondeterministic trace not detected")


def main(seed=0):
    kernel_tests()
    from . import env
    env.install()
    from . import canaries
    failures = canaries.run_all()
    if failures:
        for f in failures:
            print("SELFTEST-FAIL", f)
        return 3
    print("selftest ok")
    return 0
