"""E1/E3 harness: run real redress entry points under a fully owned environment.

A ``World`` is one execution: it builds stubs and real library objects from a plain-dict
configuration, runs one or several calls through a named entry point and records a *trace* of
everything that crosses the library/environment boundary.  All nondeterminism is resolved by
the kernel ``Chooser`` handed to the world.

Trace records (tuples, first element is the kind):

  ("call", k, entry, t)                       k-th call on this world begins at virtual time t
  ("poll", answer)                            abort_if consulted
  ("abort_flag", where, t)                    flag mode: the abort condition became true here
  ("astart", attempt, elapsed) / ("aend", attempt, decision, stop_reason, cause, sleep_s,
                                           exc_idx, res_idx, klass)
  ("op", n, label, t0, t1, obj_idx)           operation invocation n (1-based, per call)
  ("classify", exc_idx, klass, ra, cls_idx)   classifier call and its answer
  ("rclassify", res_idx, klass, ra, cls_idx)  result classifier call and its answer
  ("strategy", stub, style, attempt, klass, ra, prev, remaining, cause, cls_idx, answer)
  ("consume", granted, t)                     shared budget, consumed by the library
  ("consume_x", granted, t)                   shared budget, consumed by another party meanwhile
  ("metric", event, attempt, sleep_s, tags)   tags as sorted tuple of pairs
  ("log", event, fields)                      fields as sorted tuple of pairs
  ("handler", which, attempt, delay, decision)
  ("bsleep", which, attempt, delay)           before_sleep
  ("sleep", which, arg, t0, t1[, exc_idx])    sleeper (which = policy|call|default); exc_idx
                                              when the sleeper raised a cancellation-type exception
  ("brk", method, arg, result, state_after)   breaker spy
  ("susp", tag, action)                       coroutine suspended at tag; action taken by driver
  ("end", ...)                                how the call ended, see World._end_*
"""

from __future__ import annotations

import asyncio
import concurrent.futures
import enum
import math
import threading

from . import env as E
from .kernel import HarnessError

redress = E.install()

from redress import (  # noqa: E402
    AsyncPolicy,
    AsyncRetryPolicy,
    Budget,
    CircuitBreaker,
    Policy,
    RetryPolicy,
    retry as retry_deco,
)
from redress.classify import Classification  # noqa: E402
from redress.config import RetryConfig  # noqa: E402
from redress.errors import (  # noqa: E402
    AbortRetryError,
    CircuitOpenError,
    ErrorClass,
    RetryExhaustedError,
)
from redress.policy import AsyncRetry, Retry  # noqa: E402
from redress.policy.types import RetryTimeline  # noqa: E402
from redress.sleep import SleepDecision  # noqa: E402

TAU = E.TAU
INF_DEADLINE = 1.0e6

KL = {
    "T": ErrorClass.TRANSIENT,
    "R": ErrorClass.RATE_LIMIT,
    "S": ErrorClass.SERVER_ERROR,
    "C": ErrorClass.CONCURRENCY,
    "U": ErrorClass.UNKNOWN,
    "P": ErrorClass.PERMANENT,
    "A": ErrorClass.AUTH,
    "F": ErrorClass.PERMISSION,
}


class AppClass(enum.Enum):
    """An application's own failure taxonomy (not an ErrorClass member)."""
    THROTTLED = "throttled"


KL["Z"] = AppClass.THROTTLED
LK = {v: k for k, v in KL.items()}
NONRETRY = ("P", "A", "F")
# default_classifier(exc) == stub label, for entry points that have no classifier to configure
STATUS_FOR = {"T": 408, "R": 429, "S": 500, "C": 409, "P": 400, "A": 401, "F": 403}

FAULT_TYPES = {
    "RuntimeError": RuntimeError,
    "AbortRetryError": AbortRetryError,
    "RetryExhaustedError": lambda: RetryExhaustedError(
        stop_reason=redress.errors.StopReason.ABORTED, attempts=0, last_class=None,
        last_exception=None, last_result=None),
    "CircuitOpenError": CircuitOpenError,
    "TimeoutError": TimeoutError,
    "StopIteration": StopIteration,
    "asyncio.TimeoutError": asyncio.TimeoutError,
    "ValueError": ValueError,
    "KeyError": KeyError,
    "TypeError": TypeError,
    "HybridCancelled": lambda: HybridCancelled(),
    "HybridExit": lambda: HybridExit(),
    "AttributeError": AttributeError,
    "OSError": OSError,
    "AssertionError": AssertionError,
    "KeyboardInterrupt": KeyboardInterrupt,
    "SystemExit": SystemExit,
    "CancelledError": asyncio.CancelledError,
    "GeneratorExit": GeneratorExit,
}


class OpError(Exception):
    """Exception raised by the operation stub; its class label is carried in ``spec``."""


class HookFault(Exception):
    pass


def _step_in_thread(coro):
    """coro.send(None) executed on a fresh OS thread (joined at once: nothing runs concurrently)."""
    import threading
    box = []

    def run():
        try:
            box.append(("tok", coro.send(None)))
        except BaseException as e:  # noqa: BLE001
            box.append(("exc", e))
    t = threading.Thread(target=run)
    t.start()
    t.join()
    kind, val = box[0]
    if kind == "exc":
        raise val
    return val


class RootCauseError(OpError):
    """The low-level error another one is raised from."""


class FrozenOpError(OpError):
    """An exception instance that refuses attribute assignment (like a frozen dataclass)."""

    def __init__(self, msg, spec, status):
        super().__init__(msg)
        object.__setattr__(self, "spec", spec)
        if status is not None:
            object.__setattr__(self, "status", status)
        object.__setattr__(self, "_frozen", True)

    def __setattr__(self, name, value):
        if getattr(self, "_frozen", False) and not name.startswith("__"):
            raise AttributeError(f"cannot assign to field {name!r}")
        object.__setattr__(self, name, value)


class OpFuturesCancelled(OpError, concurrent.futures.CancelledError):
    """concurrent.futures.CancelledError is an ordinary Exception (unlike asyncio's)."""


def _raise_from(exc, cause):
    raise exc from cause


class OpRuntimeError(OpError, RuntimeError):
    """An operation failure that is also a RuntimeError (as many driver errors are)."""


class OpGroup(ExceptionGroup):
    """An exception group with a single member (what a TaskGroup / anyio nursery raises)."""


class FalsyOpError(OpError):
    """An exception object whose bool() is False (e.g. an empty aggregate error)."""

    def __len__(self):
        return 0


class HybridCancelled(asyncio.CancelledError, RuntimeError):
    """Derives from a cancellation type *and* from Exception."""


class HybridExit(SystemExit, RuntimeError):
    pass


class HybridInterrupt(KeyboardInterrupt, RuntimeError):
    pass


class Val:
    __slots__ = ("n", "fail", "ra", "asked")

    def __init__(self, n, fail=None, ra=None):
        self.n = n
        self.fail = fail
        self.ra = ra
        self.asked = False


class AwaitObj:
    """An awaitable that is neither a coroutine nor a Future: just an object with __await__."""

    __slots__ = ("make",)

    def __init__(self, make):
        self.make = make

    def __await__(self):
        return self.make().__await__()


class Suspend:
    __slots__ = ("tag",)

    def __init__(self, tag):
        self.tag = tag

    def __await__(self):
        yield self


def _raise_here(exc):
    raise exc


_RAISE_CODE = _raise_here.__code__


def klass_name(k):
    if k is None:
        return None
    if isinstance(k, (ErrorClass, AppClass)):
        return LK[k]
    return repr(k)


def enum_val(x):
    return None if x is None else getattr(x, "value", repr(x))


def ticks(x):
    """Render a float number of seconds for traces (exact for lattice values)."""
    if x is None:
        return None
    if isinstance(x, bool):
        return x
    if isinstance(x, (int, float)):
        if x != x:
            return "nan"
        if x in (math.inf, -math.inf):
            return "inf" if x > 0 else "-inf"
        return float(x)
    return repr(type(x))


STRAT_SPECIAL = {"nan": math.nan, "inf": math.inf, "-inf": -math.inf}


def strat_value(a):
    if isinstance(a, str) and a.startswith("int:"):
        return int(a[4:])            # an integer number of *seconds* (not a float)
    if isinstance(a, str):
        return STRAT_SPECIAL[a]
    return a * TAU


DEFAULT_CFG = {
    "M": 3,
    "per_class": {},
    "max_unknown": None,
    "deadline": None,            # ticks, None = effectively infinite
    "strat": {"default": "ctx", "per": {}},
    "strat_menu": [1],           # ticks or "nan"/"inf"/"-inf"
    "strat_free": False,
    "budget": None,              # {"max": n, "window": ticks, "prefill": k}
    "alphabet": ["ok", "x:T"],
    "op_free": True,
    "durs": [0],
    "dur_free": False,
    "overshoot": [0],
    "over_free": False,
    "abort": False,              # abort_if supplied
    "abort_mode": "answer",      # "answer": every poll is a choice point; "flag": abort_if reads a
                                 # flag that the environment may raise (once, for good) at the end of
                                 # an attempt, during a sleep or inside the strategy (1 deviation)
    "handler": None,             # None | "policy" | "call" | "both"
    "handler_menu": ["SLEEP", "DEFER", "ABORT"],
    "handler_free": False,
    "handler_durs": [0],         # ticks the sleep handler itself takes (menu, deviation)
    "awaitable": "coro",         # "coro": async stubs are coroutine functions; "object": they
                                 # return a plain object with __await__ (not a coroutine)
    "before_sleep": None,
    "bs_async": False,
    "sleeper": "call",           # None => library default sleeper (patched time.sleep)
    "sleeper_async": False,
    "metric": True,
    "log": True,
    "attempt_hooks": None,
    "operation": None,
    "timeline": None,            # None | True | "object"
    "breaker": None,             # {"threshold":, "window":, "recovery":, "trip_on": [...], "class_thresholds": {}}
    "faults": [],                # (site, index | "always", exception type name)
    "suspend": False,            # async stubs suspend (driver sees every await)
    "inject": [],                # subset of ["cancel", "kbd", "exit", "close"] offered at suspensions
    "inject_free": False,
    "wall_jumps": False,
    "ra_ticks": 2,
    "frac": 0.0,
    "hook_kind": "method",       # how on_metric / on_log / before_sleep are supplied: bound "method",
                                 # functools "partial", or callable "object" without __qualname__
    "timeout_class": "T",        # class the classifier stub gives a TimeoutError raised by the library
    "repoint": False,            # during the first attempt the environment may re-point or detach
                                 # policy.circuit_breaker (1 deviation)
    "rc_mode": "pure",           # "oneshot": the result classifier gives its verdict once per object;
                                 # asked again about the same object it says "success" (None)
    "strat_obj": False,
    "rec_durs": [0],             # ticks spent inside the strategy object's record_failure (menu)
    "abort_kind": "method",      # "falsy-object": abort_if is a callable object whose bool() is False;
                                 # "eventlike": a callable object that also has is_set() / set() / wait()
    "unwind_ticks": 0,           # virtual loop: ticks the operation needs to clean up after it was
                                 # cancelled (by wait_for's timeout or by the caller)
    "deco_shared": False,        # one retry(...) decorator object is applied to a function of the
                                 # *other* kind (sync / async) first, then to the function under test
    "classifier_kind": "method",  # "falsy": the classifier is a callable rule table with len() == 0
    "global_rng": False,         # library strategies draw from the process-global random stream
    "abort_truthy": False,       # abort_if answers 7 (truthy, but not the literal True) when it aborts
    "strat_falsy": False,        # context-style strategies are callable objects whose bool() is False
    "inject_start": False,       # async, hand-driven: the coroutine may be closed before its first step
    "thread_hop": False,         # async, hand-driven: the first step of the coroutine runs on another
                                 # OS thread than the rest (a coroutine is not pinned to a thread)
    "callable_kind": "plain",    # "falsy": handler / before_sleep / sleeper are callable objects whose
                                 # bool() is False (an empty queue that is itself the handler)
    "hook_dur": 0,               # ticks every on_metric / on_log invocation takes
    "async_awaitables": False,   # C12: async variants get awaitable-object sleeper / before_sleep
    "ok_awaitable": False,       # async: a successful attempt returns an awaitable *object* (a handle)          # strategies are objects exposing record_success / record_failure
    "loop": False,               # async entry points run as Tasks on the virtual event loop
    "attempt_timeout": None,     # ticks: attempt_timeout_s (sync: owned executor; async: needs loop)
    "warnings_error": False,     # the call runs under warnings.simplefilter("error")
    "boundary_hook": None,       # "metric" | "log": that per-call hook is a C callable raising
                                 # TypeError at the call boundary (wrong arity), recording nothing
    "real_executor": False,      # sync attempt timeout through whatever REAL threads / executors /
                                 # queues the library uses: an overrunning attempt really blocks
                                 # (released by events, never by wall time) and completes late
    "late_menu": ["ok"],         # what a released, timed-out attempt finally does (free choice)
    "release_menu": ["end", "sleep", "nextop"],   # when it is released: after the call ended, during
                                 # the backoff sleep that follows, or once the next attempt has started
    "nest": None,                # {"site": "aend"|"metric"|"strategy", "entry": ..., "script": [...]}:
                                 # at that callback a whole nested call on the SAME policy object may
                                 # run (choice point, 1 deviation) - single-threaded overlap of calls
    "intrude": [],               # stub sites at which another user of the shared budget may
                                 # consume a token (choice point, 1 deviation): "strategy", "classifier"
    "script_prefix": None,       # labels forced for the first ops of the first call (task sharding)
    "force_rc": False,
}


def mkcfg(**kw):
    cfg = dict(DEFAULT_CFG)
    for k, v in kw.items():
        if k not in cfg:
            raise HarnessError(f"unknown cfg key {k}")
        cfg[k] = v
    return cfg


class World:
    def __init__(self, cfg, ch):
        self.cfg = cfg
        self.ch = ch
        self.clock = E.Clock()
        self.clock.frac = cfg.get("frac", 0.0)
        E.set_clock(self.clock)
        if cfg["global_rng"]:
            import random as _stdlib_random
            _stdlib_random.seed(20260927)   # same stream for the silent and the faulty run
            self.clock.global_rng = True
        self.trace = []
        self.objs = []
        self.oid = {}
        self.fault_counts = {}
        self.op_n = 0
        self.ncalls = 0
        self.budget = None
        self.breaker = None
        self.retry_objs = {}
        self.timeline_obj = None
        self.susp_after_throw = False
        self._last_op_exc = None
        self._abort_flag = False
        self._cb_ids = set()
        self._cb_keep = []
        self._bs_running = False
        self._in_async_op = False
        self._none_class = None
        self._repointed = None
        self._nesting = False
        self._nested_done = False
        self._forced = None
        self.nested_traces = []
        if cfg["wall_jumps"]:
            self.clock.wall_hook = self._wall
        self.clock.sleep_hook = self._default_sleep
        self.loop = None
        if cfg["loop"]:
            from .vloop import VLoop
            self.loop = VLoop(self.clock)
            # the library's default async sleeper (asyncio.sleep) is a real suspension point
            self.clock.async_sleep_hook = lambda s: self._loop_sleep("default", s)
        self._pending = []
        self.inconclusive = False
        self._intr_done = False
        if cfg["attempt_timeout"] is not None:
            if cfg["real_executor"]:
                _install_real_executor()
            else:
                _install_fake_executor(self)
        self._build_shared()

    # -- registry ------------------------------------------------------------------------
    def reg(self, obj):
        i = len(self.objs)
        self.objs.append(obj)
        self.oid[id(obj)] = i
        return i

    def ident(self, obj):
        if obj is None:
            return None
        i = self.oid.get(id(obj))
        if i is not None and self.objs[i] is obj:
            return i
        return "foreign:" + type(obj).__name__

    @property
    def now(self):
        return self.clock.now

    def rel(self):
        return self.clock.now - E.T0

    # -- environment answers -------------------------------------------------------------
    def _wall(self):
        c = self.ch.choose("wall", 3)
        return (0.0, 1.0e9, -1.0e9)[c]

    def intrude(self, site):
        if self.budget is not None and site in self.cfg["intrude"]:
            if self.ch.choose("intrude", 2):
                r = Budget.consume(self.budget)
                self.trace.append(("consume_x", r, self.rel()))

    def maybe_nest(self, site):
        """Re-entrancy: while the library is inside a callback of call A, run a complete call B
        through the same policy object.  B's records go to a separate trace."""
        nest = self.cfg["nest"]
        if not nest or nest["site"] != site or self._nesting or self._nested_done:
            return
        if not self.ch.choose("nest", 2):
            return
        self._nesting = True
        self._nested_done = True
        saved = (self.trace, self.op_n, self.ncalls, self._forced, self._last_op_exc)
        self.trace = []
        self._forced = list(nest["script"])
        self._last_op_exc = None
        try:
            self.call(nest["entry"])
        finally:
            self.nested_traces.append(self.trace)
            self.trace, self.op_n, self.ncalls, self._forced, self._last_op_exc = saved
            self._nesting = False

    def fault(self, site):
        faults = self.cfg["faults"]
        if not faults:
            return
        n = self.fault_counts.get(site, 0)
        self.fault_counts[site] = n + 1
        for s, idx, tname in faults:
            if s == site and (idx == "always" or idx == n):
                self.trace.append(("fault", site, n, tname))
                f = FAULT_TYPES[tname]
                raise f()

    # -- shared objects ------------------------------------------------------------------
    def _build_shared(self):
        cfg = self.cfg
        b = cfg["budget"]
        if b is not None:
            world = self

            class SpyBudget(Budget):
                def consume(self, *a, **kw):
                    r = Budget.consume(self, *a, **kw)
                    world.trace.append(("consume", r, world.rel()))
                    return r

            self.budget = SpyBudget(max_retries=b["max"], window_s=b["window"] * TAU)
            for _ in range(b.get("prefill", 0)):
                Budget.consume(self.budget)
        br = cfg["breaker"]
        if br is not None:
            self.breaker = self.make_breaker(br)
            for step in br.get("pre", ()):
                # silent pre-history (not part of the trace): reach e.g. "open and due"
                if step[0] == "fail":
                    CircuitBreaker.record_failure(self.breaker, KL[step[1]])
                elif step[0] == "tick":
                    E.advance(step[1] * TAU)
                elif step[0] == "allow":
                    CircuitBreaker.allow(self.breaker)
                elif step[0] == "cancel":
                    CircuitBreaker.record_cancel(self.breaker)
                elif step[0] == "success":
                    CircuitBreaker.record_success(self.breaker)

    def make_breaker(self, br):
        world = self

        class SpyBreaker(CircuitBreaker):
            def allow(self, *a, **kw):
                d = CircuitBreaker.allow(self, *a, **kw)
                world.trace.append(("brk", "allow", None, (d.allowed, d.state.value, d.event),
                                    self._state.value))
                return d

            def record_success(self, *a, **kw):
                r = CircuitBreaker.record_success(self, *a, **kw)
                world.trace.append(("brk", "success", None, r, self._state.value))
                return r

            def record_failure(self, klass, *a, **kw):
                r = CircuitBreaker.record_failure(self, klass, *a, **kw)
                world.trace.append(("brk", "failure", klass_name(klass), r, self._state.value))
                return r

            def record_cancel(self, *a, **kw):
                r = CircuitBreaker.record_cancel(self, *a, **kw)
                world.trace.append(("brk", "cancel", None, r, self._state.value))
                return r

        from .statebfs import _decoy_breaker
        _decoy_breaker()
        kw = dict(
            failure_threshold=br.get("threshold", 2),
            window_s=br.get("window", 8) * TAU,
            recovery_timeout_s=br.get("recovery", 4) * TAU,
            clock=E.v_monotonic,
        )
        if br.get("clock_offset"):
            # a caller-supplied clock with another reference point than time.monotonic()
            # (time.time, an epoch-like fake): only differences of its readings mean anything
            off = float(br["clock_offset"])
            kw["clock"] = lambda: E.v_monotonic() + off
        if br.get("trip_on") is not None:
            kw["trip_on"] = {KL[k] for k in br["trip_on"]}
        if br.get("class_thresholds"):
            kw["class_thresholds"] = {KL[k]: v for k, v in br["class_thresholds"].items()}
        if br.get("falsy"):
            class FalsySpyBreaker(SpyBreaker):
                """A breaker subclass with a truth value ("is the circuit closed and idle?")."""

                def __bool__(self):
                    return False
            b = FalsySpyBreaker(**kw)
        else:
            b = SpyBreaker(**kw)
        # the caller mutates its own containers afterwards; the breaker must not notice
        for k in list(kw.get("class_thresholds") or ()):
            kw["class_thresholds"][k] = 1
        if kw.get("trip_on") is not None:
            kw["trip_on"].clear()
        return b

    # -- stubs ---------------------------------------------------------------------------
    def classifier(self, exc):
        spec = getattr(exc, "spec", None)
        i = self.ident(exc)
        if self.cfg["real_executor"] and i == "foreign:TimeoutError":
            ops = [r for r in self.trace if r[0] == "op"]
            if not ops or ops[-1][2] != "cut":
                # real time ran away (a loaded machine): the attempt did not overrun in the model
                self.inconclusive = True
        if spec is None:
            klass, ra = (self.cfg["timeout_class"] if isinstance(exc, TimeoutError) else "U"), None
        else:
            klass, ra = spec
        self.intrude("classifier")
        self.fault("classifier")
        if ra is not None:
            c = Classification(klass=KL[klass], retry_after_s=ra * TAU)
            ci = self.reg(c)
            self.trace.append(("classify", i, klass, ra * TAU, ci))
            return c
        self.trace.append(("classify", i, klass, None, None))
        return KL[klass]

    def result_classifier(self, res):
        i = self.ident(res)
        self.fault("rclassifier")
        fail = getattr(res, "fail", None)
        if res is None:
            fail = self._none_class
        if self.cfg["rc_mode"] == "oneshot" and fail is not None:
            if getattr(res, "asked", False):
                fail = None
            else:
                try:
                    res.asked = True
                except AttributeError:
                    pass
        if fail is None:
            self.trace.append(("rclassify", i, None, None, None))
            return None
        ra = getattr(res, "ra", None)
        if ra is not None:
            c = Classification(klass=KL[fail], retry_after_s=ra * TAU)
            ci = self.reg(c)
            self.trace.append(("rclassify", i, fail, ra * TAU, ci))
            return c
        self.trace.append(("rclassify", i, fail, None, None))
        return KL[fail]

    def make_strategy(self, name, style):
        world = self
        menu = self.cfg["strat_menu"]
        free = self.cfg["strat_free"]

        def answer():
            world.maybe_flip("strategy")
            world.maybe_nest("strategy")
            world.intrude("strategy")
            world.fault("strategy")
            a = menu[world.ch.choose("strat", len(menu), free)] if len(menu) > 1 else menu[0]
            return a, strat_value(a)

        if style == "libnested":
            # retry_after_or(adaptive(<stub>)): the inner adaptive strategy is never told about
            # successes / failures by the runner (only the top-level strategy object is)
            import redress.strategies as _S

            def inner(ctx):
                a, v = answer()
                cl = ctx.classification
                world.trace.append((
                    "strategy", name, "ctx", ctx.attempt, klass_name(cl.klass),
                    ticks(cl.retry_after_s), ticks(ctx.prev_sleep_s), ticks(ctx.remaining_s),
                    ctx.cause, None, a))
                return v
            return _S.retry_after_or(_S.adaptive(inner, clock=E.v_monotonic), jitter_s=0.0)
        if style == "libjitter":
            # one of the library's own jittered strategies, observed from outside
            import redress.strategies as _S
            lib = _S.decorrelated_jitter(base_s=TAU, max_s=8 * TAU)

            def strat_lib(ctx):
                world.fault("strategy")
                cl = ctx.classification
                v = lib(ctx.attempt, cl.klass, ctx.prev_sleep_s)
                world.trace.append((
                    "strategy", name, "ctx", ctx.attempt, klass_name(cl.klass),
                    ticks(cl.retry_after_s), ticks(ctx.prev_sleep_s), ticks(ctx.remaining_s),
                    ctx.cause, None, repr(round(v, 9))))
                return v
            return strat_lib
        if style == "ctx+opt":
            # context-style strategy with optional extra positional parameters
            def strat_ctx_opt(ctx, scale=1.0, cap=None):
                if not hasattr(ctx, "classification"):
                    world.trace.append(("strategy", name, "ctx+opt", "NOT-A-CONTEXT", repr(ctx)[:40],
                                        None, None, None, None, None, "?"))
                    return 0.0
                a, v = answer()
                cl = ctx.classification
                world.trace.append((
                    "strategy", name, "ctx", ctx.attempt, klass_name(cl.klass),
                    ticks(cl.retry_after_s), ticks(ctx.prev_sleep_s), ticks(ctx.remaining_s),
                    ctx.cause, world.ident(cl) if world.oid.get(id(cl)) is not None else None,
                    a))
                return v
            return self._wrap_strategy(name, strat_ctx_opt)
        if style == "ctx":
            def strat_ctx(ctx):
                a, v = answer()
                cl = ctx.classification
                world.trace.append((
                    "strategy", name, "ctx", ctx.attempt, klass_name(cl.klass),
                    ticks(cl.retry_after_s), ticks(ctx.prev_sleep_s), ticks(ctx.remaining_s),
                    ctx.cause, world.ident(cl) if world.oid.get(id(cl)) is not None else None,
                    a))
                return v
            return self._wrap_strategy(name, strat_ctx)

        def strat_legacy(attempt, klass, prev_sleep_s):
            a, v = answer()
            world.trace.append((
                "strategy", name, "legacy", attempt, klass_name(klass), None,
                ticks(prev_sleep_s), None, None, None, a))
            return v
        return strat_legacy

    def _wrap_strategy(self, name, fn):
        """Optionally present the strategy as an object with the record_success /
        record_failure protocol that stateful strategies (adaptive) rely on."""
        if self.cfg["strat_falsy"]:
            class EmptySchedule:
                """A context-style strategy object that is falsy (``len() == 0``)."""

                def __len__(self):
                    return 0

                def __call__(self, ctx):
                    return fn(ctx)
            return EmptySchedule()
        if not self.cfg["strat_obj"]:
            return fn
        world = self

        class StrategyObject:
            def __call__(self, ctx):
                return fn(ctx)

            def record_success(self):
                world.trace.append(("strategy_rec", name, "success"))

            def record_failure(self, klass=None):
                rd = world.cfg["rec_durs"]
                if len(rd) > 1:
                    E.advance(rd[world.ch.choose("recdur", len(rd))] * TAU)
                world.trace.append(("strategy_rec", name, "failure", klass_name(klass), world.rel()))

        return StrategyObject()

    def abort_if(self):
        self.fault("abort_if")
        if self.cfg["abort_mode"] == "flag":
            a = self._abort_flag
        else:
            a = self.ch.choose("poll", 2) == 1
        self.trace.append(("poll", a))
        if a and self.cfg["abort_truthy"]:
            return 7          # e.g. len(shutdown_requests): truthy, not the literal True
        return a

    def maybe_flip(self, where):
        """Flag mode: the abort condition becomes true here (and stays true)."""
        if self.cfg["abort"] and self.cfg["abort_mode"] == "flag" and not self._abort_flag:
            if self.ch.choose("flip", 2):
                self._abort_flag = True
                self.trace.append(("abort_flag", where, self.rel()))

    def make_handler(self, which):
        world = self
        menu = self.cfg["handler_menu"]
        free = self.cfg["handler_free"]

        def handler(ctx, delay):
            world.fault("handler")
            d = menu[world.ch.choose("handler", len(menu), free)] if len(menu) > 1 else menu[0]
            hd = world.cfg["handler_durs"]
            if len(hd) > 1:
                E.advance(hd[world.ch.choose("hdur", len(hd))] * TAU)
            world.trace.append(("handler", which, getattr(ctx, "attempt", None), ticks(delay), d))
            if d == "BAD":
                return "sleep-ish"
            if d.startswith("S:"):
                return d[2:]      # the plain string "defer" / "abort" / "sleep", not the enum
            return SleepDecision[d]
        return self._falsy(handler)

    def make_before_sleep(self, which):
        world = self
        if not self.cfg["bs_async"] and self.cfg["hook_kind"] != "method":
            def before_sleep_plain(ctx, delay):
                world.trace.append(("bsleep", which, getattr(ctx, "attempt", None), ticks(delay)))
                world.fault("before_sleep")
            return self._as_hook(before_sleep_plain)
        if self.cfg["bs_async"]:
            async def before_sleep_async(ctx, delay):
                world.trace.append(("bsleep", which, getattr(ctx, "attempt", None), ticks(delay)))
                world._bs_running = True
                try:
                    if world.loop is not None:
                        await world.loop.pause(0.0)
                    elif world.cfg["suspend"]:
                        await Suspend("bsleep")
                finally:
                    world._bs_running = False
                world.fault("before_sleep")
            if self.cfg["awaitable"] == "object":
                return lambda ctx, delay: AwaitObj(lambda: before_sleep_async(ctx, delay))
            return self._falsy(before_sleep_async)

        def before_sleep(ctx, delay):
            world.trace.append(("bsleep", which, getattr(ctx, "attempt", None), ticks(delay)))
            world.fault("before_sleep")
        return self._falsy(before_sleep)

    def _do_sleep(self, which, s):
        if self._bs_running:
            self.trace.append(("overlap", "sleeper called while before_sleep is still running"))
        if self._pending:
            self._release("sleep")
        t0 = self.rel()
        self.fault("sleeper")
        over = self.cfg["overshoot"]
        if self._intr_done and "intr" in over:
            over = [x for x in over if x != "intr"]   # at most one interruption per execution
        o = over[self.ch.choose("over", len(over), self.cfg["over_free"])] if len(over) > 1 else over[0]
        if o == "intr":
            self._intr_done = True
            # a sleeper built on select() / Event.wait(): a signal handler cuts the wait short
            # after part of it has passed and the sleeper reports InterruptedError
            try:
                E.advance(max(float(s) / 2.0, 0.0))
            except (TypeError, ValueError):
                pass
            exc = InterruptedError("interrupted system call")
            self.trace.append(("sleep", which, ticks(s), t0, self.rel(), self.reg(exc)))
            raise exc
        if isinstance(o, str):  # sleeper raising a cancellation-type exception
            exc = FAULT_TYPES[o]()
            self.trace.append(("sleep", which, ticks(s), t0, t0, self.reg(exc)))
            raise exc
        if not self._nesting:   # a nested call is instantaneous (see _op_body)
            E.advance(s)
            E.advance(o * TAU)
        self.trace.append(("sleep", which, ticks(s), t0, self.rel()))
        self.maybe_flip("sleep")

    async def _loop_sleep(self, which, s):
        """Sleeper on the virtual loop: really suspends for s (+ overshoot) of virtual time."""
        if self._bs_running:
            self.trace.append(("overlap", "sleeper called while before_sleep is still running"))
        t0 = self.rel()
        self.fault("sleeper")
        over = self.cfg["overshoot"]
        o = over[self.ch.choose("over", len(over), self.cfg["over_free"])] if len(over) > 1 else over[0]
        if isinstance(o, str):
            exc = FAULT_TYPES[o]()
            self.trace.append(("sleep", which, ticks(s), t0, t0, self.reg(exc)))
            raise exc
        try:
            v = float(s)
        except Exception:  # noqa: BLE001
            v = 0.0
        if v != v or v < 0:
            v = 0.0
        try:
            await self.loop.pause(min(v, 1e7) + o * TAU)
        except asyncio.CancelledError:
            self.trace.append(("sleep", which, ticks(s), t0, self.rel(), "cut"))
            raise
        self.trace.append(("sleep", which, ticks(s), t0, self.rel()))

    def _default_sleep(self, s):
        # reached through the patched time.sleep / asyncio.sleep: the library's default sleeper
        self._do_sleep("default", s)

    def make_sleeper(self, which):
        world = self
        if self.cfg["sleeper_async"]:
            async def sleeper_async(s):
                if world.loop is not None:
                    await world._loop_sleep(which, s)
                    return
                if world.cfg["suspend"]:
                    await Suspend("sleep")
                world._do_sleep(which, s)
            if self.cfg["awaitable"] == "object":
                return lambda s: AwaitObj(lambda: sleeper_async(s))
            return self._falsy(sleeper_async)

        def sleeper(s):
            world._do_sleep(which, s)
        return self._falsy(sleeper)

    def _falsy(self, fn):
        if self.cfg["callable_kind"] == "stateful":
            world = self
            ids = self._cb_ids

            class Scheduler:
                """A stateful callable object (its own counters): the library must call *this*
                object, not a copy of it."""

                def __init__(self):
                    self.calls = 0
                    self.history = []

                def __call__(self, *a, **kw):
                    self.calls += 1
                    self.history.append(len(a))
                    if id(self) not in ids:
                        world.trace.append(("copied_callback", getattr(fn, "__name__", "?")))
                    return fn(*a, **kw)
            obj = Scheduler()
            ids.add(id(obj))
            self._cb_keep.append(obj)
            return obj
        if self.cfg["callable_kind"] == "clocklike":
            world = self

            class FakeClock:
                """A callable that *also* has a helper method called sleep()."""

                def __call__(self, *a, **kw):
                    return fn(*a, **kw)

                def sleep(self, *a, **kw):
                    world.trace.append(("wrong_entry", "the object's .sleep attribute was called "
                                                       "instead of the callable itself"))
            return FakeClock()
        if self.cfg["callable_kind"] != "falsy":
            return fn

        class EmptyQueueCallable:
            """A callable object that is falsy (``len() == 0``)."""

            def __len__(self):
                return 0

            def __call__(self, *a, **kw):
                return fn(*a, **kw)
        return EmptyQueueCallable()

    def on_metric(self, event, attempt, sleep_s, tags):
        if self.cfg["hook_dur"] and not self._nesting:
            E.advance(self.cfg["hook_dur"] * TAU)
        self.trace.append(("metric", event, attempt, ticks(sleep_s), tuple(sorted(tags.items()))))
        self.maybe_nest("metric")
        self.fault("metric")

    def on_log(self, event, fields):
        if self.cfg["hook_dur"] and not self._nesting:
            E.advance(self.cfg["hook_dur"] * TAU)
        self.trace.append(("log", event, tuple(sorted((k, ticks(v) if isinstance(v, float) else v)
                                                      for k, v in fields.items()))))
        self.fault("log")

    def make_attempt_hook(self, which, kind):
        world = self

        def hook(ctx):
            if kind == "start":
                world.trace.append(("astart", which, ctx.attempt, ticks(ctx.elapsed_s)))
                world.fault("astart")
            else:
                cl = ctx.classification
                world.trace.append((
                    "aend", which, ctx.attempt, enum_val(ctx.decision), enum_val(ctx.stop_reason),
                    ctx.cause, ticks(ctx.sleep_s), world.ident(ctx.exception),
                    world.ident(ctx.result), klass_name(cl.klass) if cl is not None else None))
                world.maybe_nest("aend")
                world.fault("aend")
        return hook

    # -- the operation -------------------------------------------------------------------
    def _op_body(self, advance=True):
        cfg = self.cfg
        self.op_n += 1
        n = self.op_n
        alphabet = cfg["alphabet"]
        sp = cfg["script_prefix"]
        if self._forced is not None:
            label = self._forced[min(n, len(self._forced)) - 1]
        elif sp and self.ncalls == 1 and n <= len(sp):
            label = sp[n - 1]
        else:
            label = alphabet[self.ch.choose("op", len(alphabet), cfg["op_free"])] if len(alphabet) > 1 else alphabet[0]
        durs = cfg["durs"]
        if self._nesting:
            d = 0   # a nested call is instantaneous: callbacks that take time are a separate dimension
        else:
            d = durs[self.ch.choose("dur", len(durs), cfg["dur_free"])] if len(durs) > 1 else durs[0]
        if cfg["repoint"] and n == 1 and self._repointed is None and not self._nesting:
            c = self.ch.choose("repoint", 3)
            if c:
                pol = next((o for o in self.retry_objs.values() if hasattr(o, "circuit_breaker")
                            or hasattr(getattr(o, "policy", None), "circuit_breaker")), None)
                tgt = pol if hasattr(pol, "circuit_breaker") else getattr(pol, "policy", None)
                if tgt is not None:
                    self._repointed = "detached" if c == 1 else "other"
                    tgt.circuit_breaker = None if c == 1 else self.make_breaker(
                        dict(cfg["breaker"], pre=()))
                    self.trace.append(("repoint", self._repointed))
        t0 = self.rel()
        if not advance:
            return n, label, t0, d
        E.advance(d * TAU)
        t1 = self.rel()
        return n, label, t0, t1

    def _rec_op(self, rec):
        self.trace.append(rec)
        self.maybe_flip("op")   # the abort condition may become true while the attempt runs

    def _op_finish(self, n, label, t0, t1):
        if label == "ok" and self.cfg["ok_awaitable"] and self._in_async_op:
            inner = Val(n)

            async def _inner():
                return inner
            v = AwaitObj(_inner)   # the attempt's result *is* this handle object
            self._rec_op(("op", n, label, t0, t1, self.reg(v)))
            return v
        if label == "ok":
            v = Val(n)
            self._rec_op(("op", n, label, t0, t1, self.reg(v)))
            return v
        if label == "okx":
            # the attempt succeeds and its *value* is an exception instance (a collected error, as
            # gather(return_exceptions=True) hands them back): returned, never raised
            v = OpError(f"value{n}")
            self._rec_op(("op", n, "ok", t0, t1, self.reg(v)))
            return v
        kind, _, rest = label.partition(":")
        if kind == "xg":
            inner = OpError(f"op{n}:{rest}:member")
            inner.spec = (rest, None)
            exc = OpGroup(f"op{n}:{rest}", [inner])
            exc.spec = (rest, None)
            code = STATUS_FOR.get(rest)
            if code is not None:
                exc.status = inner.status = code
            self._rec_op(("op", n, "x:" + rest, t0, t1, self.reg(exc)))
            _raise_here(exc)
        if kind == "rn":
            self._none_class = rest
            self._rec_op(("op", n, "r:" + rest, t0, t1, None))
            return None
        if kind == "r":
            k, _, ra = rest.partition("+")
            v = Val(n, fail=k, ra=self.cfg["ra_ticks"] if ra else None)
            self._rec_op(("op", n, label, t0, t1, self.reg(v)))
            return v
        if kind == "xc":
            # a fallback failing inside `except CircuitOpenError:` (implicit exception chaining)
            exc = OpError(f"op{n}:{rest}")
            exc.spec = (rest, None)
            code = STATUS_FOR.get(rest)
            if code is not None:
                exc.status = code
            self._rec_op(("op", n, "x:" + rest, t0, t1, self.reg(exc)))
            try:
                raise CircuitOpenError("open")
            except CircuitOpenError:
                _raise_here(exc)
        if kind == "xi":
            exc = FrozenOpError(f"op{n}:{rest}", (rest, None), STATUS_FOR.get(rest))
            self._rec_op(("op", n, "x:" + rest, t0, t1, self.reg(exc)))
            _raise_here(exc)
        if kind == "xq":
            # raise X from Y: the classifier calls X `rest`, the cause would be TRANSIENT
            exc = OpError(f"op{n}:{rest}")
            exc.spec = (rest, None)
            cause = RootCauseError("root cause")
            cause.spec = ("T", None)
            cause.status = STATUS_FOR.get("T")
            self._rec_op(("op", n, "x:" + rest, t0, t1, self.reg(exc)))
            _raise_from(exc, cause)
        if kind == "xqn":
            # an ordinary failure raised `from` a nested policy's RetryExhaustedError
            exc = OpError(f"op{n}:{rest}")
            exc.spec = (rest, None)
            code = STATUS_FOR.get(rest)
            if code is not None:
                exc.status = code
            cause = RetryExhaustedError(
                stop_reason=redress.errors.StopReason.MAX_ATTEMPTS_GLOBAL, attempts=3,
                last_class=ErrorClass.SERVER_ERROR, last_exception=None, last_result=None)
            self._rec_op(("op", n, "x:" + rest, t0, t1, self.reg(exc)))
            _raise_from(exc, cause)
        if kind == "xcf":
            exc = OpFuturesCancelled(f"op{n}:{rest}")
            exc.spec = (rest, None)
            code = STATUS_FOR.get(rest)
            if code is not None:
                exc.status = code
            self._rec_op(("op", n, "x:" + rest, t0, t1, self.reg(exc)))
            _raise_here(exc)
        if kind == "xsc":
            # an errno-style string code and no numeric status (the stub classifier says `rest`)
            exc = OpError(f"op{n}:{rest}")
            exc.spec = (rest, None)
            exc.code = "ECONNRESET"
            self._last_op_exc = exc
            self.trace.append(("stringcode", n))
            self._rec_op(("op", n, "x:" + rest, t0, t1, self.reg(exc)))
            _raise_here(exc)
        if label == "same" and self._last_op_exc is not None:
            # the very same exception instance again, untouched (a cached failure that already
            # went through another policy)
            exc = self._last_op_exc
            if getattr(exc, "code", None) == "ECONNRESET" and not hasattr(exc, "status"):
                self.trace.append(("stringcode", n))
            self._rec_op(("op", n, "x:" + exc.spec[0], t0, t1, self.ident(exc)))
            _raise_here(exc)
        if kind == "xR":
            exc = OpRuntimeError(f"op{n}:{rest}")
            exc.spec = (rest, None)
            code = STATUS_FOR.get(rest)
            if code is not None:
                exc.status = code
            self._rec_op(("op", n, "x:" + rest, t0, t1, self.reg(exc)))
            _raise_here(exc)
        if kind == "xf":
            exc = FalsyOpError(f"op{n}:{rest}")
            exc.spec = (rest, None)
            code = STATUS_FOR.get(rest)
            if code is not None:
                exc.status = code
            self._rec_op(("op", n, "x:" + rest, t0, t1, self.reg(exc)))
            _raise_here(exc)
        if kind == "hyb":
            exc = {"cancel": HybridCancelled, "exit": HybridExit, "kbd": HybridInterrupt}[rest]()
            self._rec_op(("op", n, rest, t0, t1, self.reg(exc)))
            _raise_here(exc)
        if kind == "x" and rest.endswith("@") and self._last_op_exc is not None:
            # the operation raises the very same exception object again (e.g. a cached failure)
            exc = self._last_op_exc
            k2 = rest.rstrip("@").partition("+")[0]
            exc.spec = (k2, exc.spec[1])   # the cached error instance had its fields refreshed
            code = STATUS_FOR.get(k2)
            if code is not None:
                exc.status = code
            elif hasattr(exc, "status"):
                del exc.status
            self._rec_op(("op", n, "x:" + k2, t0, t1, self.ident(exc)))
            _raise_here(exc)
        if kind == "x":
            rest = rest.rstrip("@")
            label = "x:" + rest
            k, _, ra = rest.partition("+")
            exc = OpError(f"op{n}:{k}")
            exc.spec = (k, self.cfg["ra_ticks"] if ra else None)
            code = STATUS_FOR.get(k)
            if code is not None:
                exc.status = code
            self._last_op_exc = exc
        elif label == "abort":
            # through the documented public alias (redress.AbortRetry is AbortRetryError)
            exc = getattr(redress, "AbortRetry", AbortRetryError)()
        elif label == "kbd":
            exc = KeyboardInterrupt()
        elif label == "exit":
            exc = SystemExit(3)
        elif label == "cancel":
            exc = asyncio.CancelledError()
        elif label == "genexit":
            exc = GeneratorExit()
        elif label == "nested+exc":
            # a nested policy that was deferred after an exception: its RetryExhaustedError
            # carries that exception - the attempt's exception is the RetryExhaustedError itself
            inner = OpError(f"inner{n}")
            inner.spec = ("T", None)
            exc = RetryExhaustedError(
                stop_reason=redress.errors.StopReason.SCHEDULED, attempts=2,
                last_class=ErrorClass.TRANSIENT, last_exception=inner, last_result=None,
                next_sleep_s=1.5)
            self._rec_op(("op", n, "nested", t0, t1, self.reg(exc)))
            _raise_here(exc)
        elif label == "nested":
            exc = RetryExhaustedError(
                stop_reason=redress.errors.StopReason.MAX_ATTEMPTS_GLOBAL, attempts=7,
                last_class=ErrorClass.SERVER_ERROR, last_exception=None, last_result=None)
        elif label == "coe":
            exc = CircuitOpenError("open")
        elif label == "timeout":
            exc = TimeoutError("t")
        else:
            raise HarnessError(f"unknown outcome label {label}")
        self._rec_op(("op", n, label, t0, t1, self.reg(exc)))
        _raise_here(exc)

    def op_sync(self):
        if self.cfg["real_executor"]:
            return self._op_real()
        n, label, t0, t1 = self._op_body()
        return self._op_finish(n, label, t0, t1)

    # -- real threads: the sync attempt timeout as the library really implements it ---------
    def _op_real(self):
        """Runs on whatever thread the library runs the attempt on.  Every hand-off is sequenced
        by events: while this stub works the caller's thread is blocked waiting for the attempt
        (or for the stub's `done` event), so trace and chooser are never touched concurrently."""
        self._release("nextop")
        n, label, t0, d = self._op_body(advance=False)
        to = self.cfg["attempt_timeout"]
        if to is None or d <= to:
            E.advance(d * TAU)
            return self._op_finish(n, label, t0, self.rel())
        cfg = self.cfg
        late = self.ch.pick("late", cfg["late_menu"], True)
        point = self.ch.pick("release", cfg["release_menu"], True)
        E.advance(to * TAU)          # the caller gives up after exactly attempt_timeout_s
        self.trace.append(("op", n, "cut", t0, self.rel(), None))
        rel_ev, done_ev = threading.Event(), threading.Event()
        self._pending.append([point, rel_ev, done_ev, threading.current_thread()])
        if not rel_ev.wait(20.0):    # real seconds: only reached when the harness lost the thread
            self.inconclusive = True
        try:
            return self._late_finish(n, late)
        finally:
            done_ev.set()

    def _late_finish(self, n, late):
        if late == "ok":
            v = Val(n)
            self.trace.append(("late", n, late, self.reg(v)))
            return v
        kind, _, k = late.partition(":")
        if kind == "r":
            v = Val(n, fail=k)
            self.trace.append(("late", n, late, self.reg(v)))
            return v
        exc = OpError(f"late{n}:{k}")
        exc.spec = (k, None)
        code = STATUS_FOR.get(k)
        if code is not None:
            exc.status = code
        self.trace.append(("late", n, late, self.reg(exc)))
        _raise_here(exc)

    def _release(self, point):
        """Let the timed-out attempts that wait for `point` finish, and wait until their outcome
        has been handed to whatever the library left listening."""
        for p in list(self._pending):
            if p[0] == point or point == "end":
                self._pending.remove(p)
                p[1].set()
                if not p[2].wait(20.0):
                    self.inconclusive = True
                if p[3] is not threading.current_thread():
                    p[3].join(0.05)   # an executor worker exits after delivering; a long-lived
                                      # helper thread gets 50 ms to deliver

    async def op_async(self):
        self._in_async_op = True
        if self.loop is not None:
            n, label, t0, d = self._op_body(advance=False)
            if label.startswith("sc:"):
                # while the attempt runs, somebody (the operation itself, a callback it triggers)
                # asks for the task to be cancelled: asyncio delivers the CancelledError at the
                # task's next suspension point
                label = label[3:]
                asyncio.current_task().cancel()
                self.trace.append(("cancel_requested", n))
                return self._op_finish(n, label, t0, self.rel())
            try:
                await self.loop.pause(d * TAU)
            except asyncio.CancelledError:
                # cut short: by the attempt timeout or by cancellation of the whole call
                self.trace.append(("op", n, "cut", t0, self.rel(), None))
                if self.cfg["unwind_ticks"]:
                    try:   # cleaning up takes time; a further cancellation ends the cleanup
                        await self.loop.pause(self.cfg["unwind_ticks"] * TAU)
                    except asyncio.CancelledError:
                        pass
                raise
            return self._op_finish(n, label, t0, self.rel())
        n, label, t0, t1 = self._op_body()
        if self.cfg["suspend"]:
            await Suspend("op")
        return self._op_finish(n, label, t0, t1)

    # -- building library objects ---------------------------------------------------------
    def _retry_kwargs(self, is_async, with_attempt_hooks=True, deco=False):
        cfg = self.cfg
        kw = {}
        st = cfg["strat"]
        if st.get("default"):
            kw["strategy"] = self.make_strategy("default", st["default"])
        if st.get("per"):
            kw["strategies"] = {KL[k]: self.make_strategy(k, style) for k, style in st["per"].items()}
        elif st.get("per_empty"):
            kw["strategies"] = {}
        kw["classifier"] = self.classifier
        if cfg["classifier_kind"] == "falsy":
            world = self

            class RuleTable(dict):
                """An (empty) rule table that is itself the classifier."""

                def __call__(self, exc):
                    return world.classifier(exc)
            kw["classifier"] = RuleTable()
        if any(a.startswith("r:") for a in cfg["alphabet"]) or cfg["force_rc"]:
            kw["result_classifier"] = self.result_classifier
        kw["deadline_s"] = INF_DEADLINE if cfg["deadline"] is None else cfg["deadline"] * TAU
        kw["max_attempts"] = cfg["M"]
        if cfg["attempt_timeout"] is not None:
            kw["attempt_timeout_s"] = cfg["attempt_timeout"] * TAU
        kw["max_unknown_attempts"] = cfg["max_unknown"]
        if cfg["per_class"]:
            kw["per_class_max_attempts"] = {KL[k]: v for k, v in cfg["per_class"].items()}
        if self.budget is not None:
            kw["budget"] = self.budget
        if cfg["handler"] in ("policy", "both"):
            kw["sleep"] = self.make_handler("policy")
        if cfg["before_sleep"] in ("policy", "both"):
            kw["before_sleep"] = self.make_before_sleep("policy")
        if cfg["sleeper"] in ("policy", "both"):
            kw["sleeper"] = self.make_sleeper("policy")
        if with_attempt_hooks and cfg["attempt_hooks"] in ("policy", "both"):
            kw["on_attempt_start"] = self.make_attempt_hook("policy", "start")
            kw["on_attempt_end"] = self.make_attempt_hook("policy", "end")
        return kw

    def _as_hook(self, fn):
        kind = self.cfg["hook_kind"]
        if kind == "partial":
            import functools
            return functools.partial(fn)
        if kind == "object":
            class Hook:
                __slots__ = ()

                def __call__(self, *a, **kw):
                    return fn(*a, **kw)
            return Hook()
        return fn

    def _call_kwargs(self, execute, deco=False):
        cfg = self.cfg
        kw = {}
        if cfg["metric"]:
            kw["on_metric"] = self._as_hook(self.on_metric)
        if cfg["log"]:
            kw["on_log"] = self._as_hook(self.on_log)
        if cfg["boundary_hook"]:
            # a hook that cannot be called with the documented signature, implemented in C: the
            # TypeError comes from the call boundary, there is no frame of the hook's own
            import functools
            kw["on_" + cfg["boundary_hook"]] = functools.partial(int, "x", 10)
        if cfg["operation"]:
            kw["operation"] = cfg["operation"]
        if cfg["abort"]:
            if cfg["abort_kind"] == "falsy-object":
                world = self

                class StopToken:
                    def __bool__(self):
                        return False

                    def __call__(self):
                        return world.abort_if()
                kw["abort_if"] = StopToken()
            elif cfg["abort_kind"] == "optarg":
                world = self

                def cutoff_passed(now=None):
                    # a legal zero-argument predicate with an optional parameter of its own
                    if now is not None:
                        world.trace.append(("abort_arg", repr(now)))
                        return False      # asked about some other instant: not what was meant
                    return world.abort_if()
                kw["abort_if"] = cutoff_passed
            elif cfg["abort_kind"] == "eventlike":
                world = self

                class Shutdown:
                    """__call__ means "draining or killed"; is_set() reports the kill flag only."""

                    def __call__(self):
                        return world.abort_if()

                    def is_set(self):
                        return False

                    def set(self):
                        pass

                    def wait(self, timeout=None):
                        return False
                kw["abort_if"] = Shutdown()
            else:
                kw["abort_if"] = self.abort_if
        if not deco:
            if cfg["handler"] in ("call", "both"):
                kw["sleep"] = self.make_handler("call")
            if cfg["before_sleep"] in ("call", "both"):
                kw["before_sleep"] = self.make_before_sleep("call")
            if cfg["sleeper"] in ("call", "both"):
                kw["sleeper"] = self.make_sleeper("call")
        if cfg["attempt_hooks"] in ("call", "both"):
            kw["on_attempt_start"] = self.make_attempt_hook("call", "start")
            kw["on_attempt_end"] = self.make_attempt_hook("call", "end")
        if execute and cfg["timeline"]:
            if cfg["timeline"] == "object":
                self.timeline_obj = RetryTimeline()
                kw["capture_timeline"] = self.timeline_obj
            else:
                kw["capture_timeline"] = True
        return kw

    def target(self, entry):
        """Return the (cached) library object for an entry-point family name."""
        base = entry.split(".")[0]
        obj = self.retry_objs.get(base)
        if obj is not None:
            return obj
        is_async = base.startswith("Async") or base == "adeco"
        if base in ("Retry", "AsyncRetry"):
            cls = AsyncRetry if is_async else Retry
            obj = cls(**self._retry_kwargs(is_async))
        elif base in ("RetryCfg", "AsyncRetryCfg", "RetryPolicyCfg", "AsyncRetryPolicyCfg"):
            kw = self._retry_kwargs(is_async, with_attempt_hooks=False)
            rc = RetryConfig(
                deadline_s=kw["deadline_s"], max_attempts=kw["max_attempts"],
                max_unknown_attempts=kw["max_unknown_attempts"],
                per_class_max_attempts=kw.get("per_class_max_attempts"),
                default_strategy=kw.get("strategy"), class_strategies=kw.get("strategies"),
                result_classifier=kw.get("result_classifier"), sleep=kw.get("sleep"),
                before_sleep=kw.get("before_sleep"), sleeper=kw.get("sleeper"),
                budget=kw.get("budget"), attempt_timeout_s=kw.get("attempt_timeout_s"))
            cls = {"RetryCfg": Retry, "AsyncRetryCfg": AsyncRetry, "RetryPolicyCfg": RetryPolicy,
                   "AsyncRetryPolicyCfg": AsyncRetryPolicy}[base]
            obj = cls.from_config(rc, classifier=self.classifier)
        elif base in ("Policy", "AsyncPolicy"):
            rcls = AsyncRetry if is_async else Retry
            pcls = AsyncPolicy if is_async else Policy
            obj = pcls(retry=rcls(**self._retry_kwargs(is_async)), circuit_breaker=self.breaker)
        elif base in ("Policy0", "AsyncPolicy0"):
            pcls = AsyncPolicy if is_async else Policy
            obj = pcls(retry=None, circuit_breaker=self.breaker)
        elif base in ("RetryPolicy", "AsyncRetryPolicy"):
            cls = AsyncRetryPolicy if is_async else RetryPolicy
            obj = cls(**self._retry_kwargs(is_async, with_attempt_hooks=False))
            if self.breaker is not None:
                obj.policy.circuit_breaker = self.breaker
        elif base in ("RetrySet", "AsyncRetrySet"):
            # everything that is a public attribute is (re)assigned after construction
            from datetime import timedelta
            cls = AsyncRetry if is_async else Retry
            kw = self._retry_kwargs(is_async)
            late = {k: kw.pop(k) for k in ("result_classifier", "sleep", "before_sleep", "sleeper",
                                           "budget", "on_attempt_start", "on_attempt_end") if k in kw}
            true_deadline = kw["deadline_s"]
            true_m, true_mu = kw["max_attempts"], kw["max_unknown_attempts"]
            true_pc = kw.pop("per_class_max_attempts", None)
            kw.update(deadline_s=60.0, max_attempts=6, max_unknown_attempts=2)
            obj = cls(**kw)
            obj.deadline = timedelta(seconds=true_deadline)
            obj.max_attempts = true_m
            obj.max_unknown_attempts = true_mu
            obj.per_class_max_attempts = dict(true_pc or {})
            for k, val in late.items():
                setattr(obj, k, val)
        elif base in ("PolicySet", "AsyncPolicySet"):
            # the breaker is attached by attribute assignment after construction
            rcls = AsyncRetry if is_async else Retry
            pcls = AsyncPolicy if is_async else Policy
            obj = pcls(retry=rcls(**self._retry_kwargs(is_async)))
            obj.circuit_breaker = self.breaker
        elif base in ("RetryPolicySet", "AsyncRetryPolicySet"):
            # the wrapper is built bare and configured by attribute assignment afterwards
            cls = AsyncRetryPolicy if is_async else RetryPolicy
            from datetime import timedelta
            kw = self._retry_kwargs(is_async, with_attempt_hooks=False)
            late = {k: kw.pop(k) for k in ("result_classifier", "sleep", "before_sleep", "sleeper",
                                           "budget") if k in kw}
            true_deadline = kw["deadline_s"]
            true_m, true_mu = kw["max_attempts"], kw["max_unknown_attempts"]
            true_pc = kw.pop("per_class_max_attempts", None)
            kw.update(deadline_s=60.0, max_attempts=6, max_unknown_attempts=None)
            obj = cls(**kw)
            obj.deadline = timedelta(seconds=true_deadline)
            obj.max_attempts = true_m
            obj.max_unknown_attempts = true_mu
            obj.per_class_max_attempts = dict(true_pc or {})
            for k, val in late.items():
                setattr(obj, k, val)
            if self.breaker is not None:
                obj.policy.circuit_breaker = self.breaker
        elif base in ("deco", "adeco"):
            kw = self._retry_kwargs(is_async, with_attempt_hooks=False, deco=True)
            kw.update(self._call_kwargs(False, deco=True))
            if is_async:
                world = self

                async def opfn():
                    return await world.op_async()
                deco = retry_deco(**kw)
                if self.cfg["deco_shared"]:
                    import warnings
                    with warnings.catch_warnings():
                        warnings.simplefilter("ignore")
                        deco(lambda: None)          # a plain function decorated first
                obj = deco(opfn)
            else:
                world = self

                def opfn():
                    return world.op_sync()
                deco = retry_deco(**kw)
                if self.cfg["deco_shared"]:
                    async def _other():
                        return None
                    deco(_other)                    # a coroutine function decorated first
                obj = deco(opfn)
        else:
            raise HarnessError(f"unknown entry {entry}")
        self.retry_objs[base] = obj
        return obj

    # -- running a call -------------------------------------------------------------------
    def call(self, entry):
        """Run one call through ``entry`` (e.g. "Retry.call", "AsyncPolicy.execute", "deco")."""
        if self.cfg["warnings_error"]:
            # the process runs with warnings turned into errors (python -W error, pytest's
            # filterwarnings = error): part of the environment, owned for the duration of the call
            import warnings
            with warnings.catch_warnings():
                warnings.simplefilter("error")
                return self._call(entry)
        return self._call(entry)

    def _call(self, entry):
        self.ncalls += 1
        self.op_n = 0
        if not self._nesting:
            self._abort_flag = False   # every top-level call has its own abort condition
        self.trace.append(("call", self.ncalls, entry, self.rel()))
        parts = entry.split(".")
        base = parts[0]
        method = parts[1] if len(parts) > 1 else "deco"
        is_async = base.startswith("Async") or base == "adeco"
        obj = self.target(entry)
        execute = method == "execute"
        op = self.op_async if is_async else self.op_sync
        try:
            if method == "deco":
                r = obj()
            elif method in ("context", "contextset"):
                kw = self._call_kwargs(False)
                if method == "contextset":
                    # a long-lived context object whose options are assigned afterwards
                    ctxobj = obj.context()
                    for k, val in kw.items():
                        setattr(ctxobj, k, val)
                else:
                    ctxobj = obj.context(**kw)
                if is_async:
                    r = self._async_context(ctxobj, op)
                else:
                    with ctxobj as call:
                        r = call(op)
            else:
                kw = self._call_kwargs(execute)
                r = getattr(obj, method)(op, **kw)
            if is_async and self.loop is not None:
                r = self.drive_loop(r)
                if r[0] == "raise":
                    raise r[1]
                r = r[1]
            elif is_async:
                r = self.drive(r)
                if r[0] == "closed":
                    self.trace.append(("end", "closed"))
                    return self.trace[-1]
                if r[0] == "raise":
                    raise r[1]
                r = r[1]
        except BaseException as exc:  # noqa: BLE001 - everything is an observation here
            if self._pending:
                self._release("end")
            if isinstance(exc, HarnessError):
                raise
            return self._end_raise(exc)
        if self._pending:
            self._release("end")
        if execute:
            return self._end_outcome(r)
        self.trace.append(("end", "ret", self.ident(r)))
        return self.trace[-1]

    async def _async_context_coro(self, ctxobj, op):
        async with ctxobj as call:
            return await call(op)

    def _async_context(self, ctxobj, op):
        return self._async_context_coro(ctxobj, op)

    def drive(self, coro):
        inject = self.cfg["inject"]
        if self.cfg["inject_start"] and self.ch.choose("start", 2):
            # the task is cancelled before it ever starts: the coroutine object is closed unrun
            self.trace.append(("susp", "not-started", "close"))
            coro.close()
            return ("closed",)
        try:
            if self.cfg["thread_hop"]:
                tok = _step_in_thread(coro)
            else:
                tok = coro.send(None)
            while True:
                tag = getattr(tok, "tag", None)
                if tag is None:
                    # the library awaits something that needs a running event loop (a Future):
                    # a hand-driven coroutine cannot go on; the virtual-loop families cover this
                    self.trace.append(("needs_loop", type(tok).__name__))
                    try:
                        coro.close()
                    except RuntimeError:
                        pass
                    return ("closed",)
                act = "resume"
                if inject:
                    c = self.ch.choose("susp", 1 + len(inject), self.cfg["inject_free"])
                    if c:
                        act = inject[c - 1]
                self.trace.append(("susp", tag, act))
                if act == "resume":
                    tok = coro.send(None)
                    continue
                if act == "close":
                    try:
                        coro.close()
                    except RuntimeError as e:  # "coroutine ignored GeneratorExit"
                        self.trace.append(("close_ignored", str(e)))
                    return ("closed",)
                exc = FAULT_TYPES[{"cancel": "CancelledError", "kbd": "KeyboardInterrupt",
                                   "exit": "SystemExit"}[act]]()
                self.reg(exc)
                self.trace.append(("thrown", act, self.ident(exc)))
                tok = coro.throw(exc)
                # still suspended after a cancellation was thrown in
                self.trace.append(("susp_after_throw", getattr(tok, "tag", None)))
        except StopIteration as e:
            return ("ret", e.value)
        except BaseException as e:  # noqa: BLE001
            if isinstance(e, HarnessError):
                raise
            return ("raise", e)

    def drive_loop(self, coro):
        """Run the coroutine as a Task on the virtual loop; between loop iterations the harness
        may cancel the task (one injection per run)."""
        from .vloop import run_task
        inject = "cancel" in self.cfg["inject"]
        state = {"done": False}

        def between(task, i):
            if not inject or state["done"]:
                return
            if self.ch.choose("susp", 2, self.cfg["inject_free"]):
                state["done"] = True
                self.trace.append(("thrown", "cancel", None))
                task.cancel()

        task = run_task(self.loop, coro, between)
        if self.loop.unhandled:
            self.trace.append(("loop-unhandled", tuple(self.loop.unhandled)))
        if task.cancelled():
            return ("raise", asyncio.CancelledError())
        exc = task.exception()
        if exc is not None:
            return ("raise", exc)
        return ("ret", task.result())

    def _tb_info(self, exc):
        """(innermost frame is the op stub's raise helper, number of helper frames in the chain)"""
        tb = exc.__traceback__
        n = 0
        last = None
        while tb is not None:
            if tb.tb_frame.f_code is _RAISE_CODE:
                n += 1
            last = tb
            tb = tb.tb_next
        inner = last is not None and last.tb_frame.f_code is _RAISE_CODE
        return (inner, n)

    def _end_raise(self, exc):
        i = self.ident(exc)
        det = None
        if isinstance(exc, RetryExhaustedError):
            det = (enum_val(exc.stop_reason), exc.attempts, klass_name(exc.last_class),
                   self.ident(exc.last_exception), self.ident(exc.last_result),
                   ticks(exc.next_sleep_s))
        rec = ("end", "raise", type(exc).__name__, i, det,
               self._tb_info(exc) if isinstance(i, int) else None)
        self.trace.append(rec)
        return rec

    def _end_outcome(self, o):
        if not hasattr(o, "ok") or not hasattr(o, "stop_reason"):
            # execute() handed back something that is not an outcome (None, ...): an observation
            self.trace.append(("end", "ret", self.ident(o) if o is not None else "None"))
            return self.trace[-1]
        tl = None
        t = getattr(o, "timeline", None)
        if t is not None:
            tl = tuple((e.event, e.attempt, ticks(e.sleep_s), klass_name(e.error_class),
                        enum_val(e.stop_reason), e.cause) for e in t.events)
        rec = ("end", "outcome", o.ok, self.ident(o.value), enum_val(o.stop_reason), o.attempts,
               klass_name(o.last_class), self.ident(o.last_exception), self.ident(o.last_result),
               o.cause, ticks(o.next_sleep_s), tl,
               None if self.timeline_obj is None else (t is self.timeline_obj))
        self.trace.append(rec)
        return rec

    def tick(self, n):
        E.advance(n * TAU)
        self.trace.append(("tick", n))


class _FakeFuture:
    """Future of the owned executor.  The task starts when the executor's single worker is free;
    a task that exceeds the caller's timeout keeps the worker busy until it would have finished."""

    def __init__(self, world, executor, func):
        self.world = world
        self.executor = executor
        self.func = func
        self.state = "pending"   # pending | finished | timed_out | never_started
        self.value = None
        self.exc = None

    def _run(self, timeout):
        import concurrent.futures as _cf
        w = self.world
        now = w.clock.now
        start = max(now, self.executor.busy_until)
        if timeout is not None and start - now > timeout:
            # still queued behind a hung attempt when the caller gives up: never invoked
            w.clock.now = now + timeout
            w.trace.append(("queued-timeout", w.rel()))
            self.state = "never_started"
            raise _cf.TimeoutError()
        w.clock.now = start
        n_before = len(w.trace)
        try:
            self.value, self.exc = self.func(), None
        except BaseException as e:  # noqa: BLE001
            self.value, self.exc = None, e
        finish = w.clock.now
        if timeout is not None and finish - now > timeout:
            self.state = "timed_out"
            self.executor.busy_until = finish
            w.clock.now = now + timeout
            for i in range(len(w.trace) - 1, n_before - 1, -1):
                r = w.trace[i]
                if r[0] == "op":
                    w.trace[i] = ("op", r[1], "cut", r[3], w.rel(), None)
                    break
            raise _cf.TimeoutError()
        self.state = "finished"

    def result(self, timeout=None):
        import concurrent.futures as _cf
        if self.state == "pending":
            self._run(timeout)
        elif self.state in ("timed_out", "never_started"):
            raise _cf.TimeoutError()
        if self.exc is not None:
            raise self.exc
        return self.value

    def cancel(self):
        return self.state in ("pending", "never_started")

    def done(self):
        return self.state == "finished"

    def cancelled(self):
        return False

    def running(self):
        return self.state == "timed_out"

    def exception(self, timeout=None):
        import concurrent.futures as _cf
        if self.state == "pending":
            self._run(timeout)
        if self.state != "finished":
            raise _cf.TimeoutError()
        return self.exc


class _FakeExecutor:
    """Owned replacement for ThreadPoolExecutor inside redress.policy.runner.sync_core: one
    worker per executor *instance*, virtual time."""

    world = None

    def __init__(self, *a, **kw):
        self.busy_until = 0.0
        self._owner = _FakeExecutor.world

    def submit(self, func, *a, **kw):
        if self._owner is not _FakeExecutor.world:
            # an executor object cached by the library across executions: each execution of the
            # explorer starts from a fresh process state
            self._owner = _FakeExecutor.world
            self.busy_until = 0.0
        return _FakeFuture(_FakeExecutor.world, self, lambda: func(*a, **kw))

    def shutdown(self, *a, **kw):
        pass


def _install_fake_executor(world):
    import redress.policy.runner.sync_core as sc
    _FakeExecutor.world = world
    if hasattr(sc, "ThreadPoolExecutor"):
        sc.ThreadPoolExecutor = _FakeExecutor


def _install_real_executor():
    import redress.policy.runner.sync_core as sc
    if getattr(sc, "ThreadPoolExecutor", None) is _FakeExecutor:
        sc.ThreadPoolExecutor = concurrent.futures.ThreadPoolExecutor


def run_single(cfg, entry, ch):
    w = World(cfg, ch)
    w.call(entry)
    return w
