"""Lazy module proxies so the coordinating process never imports (and patches for) redress."""

import importlib


class _Lazy:
    def __init__(self, modname):
        self.__dict__["_modname"] = modname

    def __getattr__(self, name):
        m = importlib.import_module(self.__dict__["_modname"])
        v = getattr(m, name)
        self.__dict__[name] = v
        return v


seq = _Lazy("mc.seq")
env = _Lazy("mc.env")
