"""E4: preemption-bounded exploration of real thread interleavings on Budget / CircuitBreaker.

Real OS threads run small programs over one shared real object.  ``sys.monitoring`` local LINE
(or INSTRUCTION) events on the component's code objects make every source line (bytecode) a
scheduling point; a baton (one semaphore per thread) guarantees that exactly one thread runs at a
time and that the kernel ``Chooser`` decides who runs next.  The instance's ``threading.Lock`` is
replaced by a cooperative model lock whose acquire/release are scheduling points and which
disables blocked threads.  Oracle: brute-force linearizability against sequential runs of the
real component.
"""

from __future__ import annotations

import itertools
import sys
import threading

from . import env as E
from .kernel import HarnessError, explore
from .seqcheck import new_result

redress = E.install()
import redress.budget as budget_mod  # noqa: E402
import redress.circuit as circuit_mod  # noqa: E402
from redress import Budget, CircuitBreaker  # noqa: E402
from redress.errors import ErrorClass  # noqa: E402

TAU = E.TAU
MON = sys.monitoring
TOOL = 3
_LOCK_TYPES = (type(threading.Lock()), type(threading.RLock()))
_tls = threading.local()
_current_sched = None


class Deadlock(Exception):
    pass


class SelfDeadlock(Exception):
    pass


def _code_objects(module):
    out = []
    seen = set()

    def walk(co):
        if id(co) in seen:
            return
        seen.add(id(co))
        out.append(co)
        for c in co.co_consts:
            if hasattr(c, "co_code"):
                walk(c)

    for obj in vars(module).values():
        if isinstance(obj, type) and obj.__module__ == module.__name__:
            for v in vars(obj).values():
                f = getattr(v, "__func__", v)
                if isinstance(v, property):
                    for g in (v.fget, v.fset, v.fdel):
                        if g is not None:
                            walk(g.__code__)
                elif hasattr(f, "__code__"):
                    walk(f.__code__)
        elif hasattr(obj, "__code__") and getattr(obj, "__module__", None) == module.__name__:
            walk(obj.__code__)
    return out


_CODES = None
_granularity = None


def _event_cb(code, where):
    s = getattr(_tls, "sched", None)
    if s is not None:
        s.point(_tls.tid, ("line", code.co_name, where))


def setup_monitoring(granularity):
    """granularity: 'line' or 'instruction'."""
    global _CODES, _granularity
    if _granularity == granularity:
        return
    if _CODES is None:
        _CODES = _code_objects(circuit_mod) + _code_objects(budget_mod)
        try:
            MON.use_tool_id(TOOL, "verif-threads")
        except ValueError:
            pass
    ev_line, ev_ins = MON.events.LINE, MON.events.INSTRUCTION
    MON.register_callback(TOOL, ev_line, _event_cb if granularity == "line" else None)
    MON.register_callback(TOOL, ev_ins, _event_cb if granularity == "instruction" else None)
    for co in _CODES:
        MON.set_local_events(TOOL, co, ev_line if granularity == "line" else ev_ins)
    _granularity = granularity


class ModelLock:
    """Cooperative replacement for threading.Lock / RLock inside the component."""

    def __init__(self, sched, reentrant=False):
        self.sched = sched
        self.owner = None
        self.depth = 0
        self.reentrant = reentrant

    def acquire(self, blocking=True, timeout=-1):
        tid = getattr(_tls, "tid", None)
        s = self.sched
        if tid is None or s is None or not s.active:
            # sequential use (setup, probes): plain semantics
            if self.owner is not None and not (self.reentrant and self.owner == "seq"):
                raise SelfDeadlock("a thread acquires a lock it already holds")
            self.owner = "seq"
            self.depth += 1
            return True
        s.point(tid, ("acquire",))
        while self.owner is not None and not (self.reentrant and self.owner == tid):
            if not blocking:
                return False
            s.block(tid, self)
        self.owner = tid
        self.depth += 1
        return True

    def release(self):
        self.depth -= 1
        if self.depth == 0:
            self.owner = None
        tid = getattr(_tls, "tid", None)
        s = self.sched
        if tid is not None and s is not None and s.active:
            s.point(tid, ("release",))

    def __enter__(self):
        self.acquire()
        return self

    def __exit__(self, *a):
        self.release()
        return False

    def locked(self):
        return self.owner is not None


class _Abort(BaseException):
    pass


class _Worker:
    """Persistent OS thread reused across executions (thread creation is the dominant cost)."""

    def __init__(self):
        self.cmd = threading.Semaphore(0)
        self.idle = threading.Semaphore(0)
        self.job = None
        self.thread = threading.Thread(target=self._loop, daemon=True)
        self.thread.start()

    def _loop(self):
        while True:
            self.cmd.acquire()
            sched, tid, fn = self.job
            try:
                sched._thread_main(tid, fn)
            finally:
                self.idle.release()


_WORKERS = []


def _pool(n):
    while len(_WORKERS) < n:
        _WORKERS.append(_Worker())
    return _WORKERS[:n]


class Scheduler:
    """Runs one execution.  Exactly one thread holds the baton; the baton holder itself asks the
    kernel who runs next at every scheduling point and only hands over (two semaphore
    operations) when the answer is another thread."""

    def __init__(self, ch):
        self.ch = ch
        self.active = False
        self.aborting = False
        self.sems = []
        self.main = threading.Semaphore(0)
        self.status = []      # "ready" | "blocked" | "done"
        self.blocked_on = []
        self.steps = 0
        self.error = None
        self.deadlock = None
        self.raised = []
        self.trace = []

    def _pick(self, cur):
        n = len(self.status)
        enabled = [i for i in range(n) if self.status[i] == "ready"
                   or (self.status[i] == "blocked" and self.blocked_on[i].owner is None)]
        if not enabled:
            if not all(st == "done" for st in self.status):
                self.deadlock = f"no enabled thread; status={self.status}"
            return None
        cur_enabled = cur in enabled
        order = ([cur] if cur_enabled else []) + [i for i in enabled if i != cur]
        c = self.ch.choose("sched", len(order), free=not cur_enabled) if len(order) > 1 else 0
        nxt = order[c]
        self.trace.append(nxt)
        self.steps += 1
        if self.steps > 20000:
            raise HarnessError("schedule longer than 20000 steps (livelock?)")
        return nxt

    def _handoff(self, tid, nxt):
        if nxt is None:
            self.main.release()
        else:
            self.sems[nxt].release()
        self.sems[tid].acquire()
        if self.aborting:
            raise _Abort()

    # called in worker threads --------------------------------------------------------------
    def point(self, tid, what):
        if not self.active:
            return
        nxt = self._pick(tid)
        if nxt != tid:
            self._handoff(tid, nxt)

    def block(self, tid, lock):
        if not self.active:
            raise _Abort()
        self.status[tid] = "blocked"
        self.blocked_on[tid] = lock
        nxt = self._pick(tid)
        self._handoff(tid, nxt)
        self.status[tid] = "ready"
        self.blocked_on[tid] = None

    def _thread_main(self, tid, fn):
        _tls.sched = self
        _tls.tid = tid
        self.sems[tid].acquire()
        try:
            if not self.aborting:
                fn()
        except _Abort:
            pass
        except HarnessError as e:
            if self.error is None:
                self.error = (tid, e)
        except BaseException as e:  # noqa: BLE001
            # the component itself raised under this interleaving: an observation
            self.raised.append((tid, f"{type(e).__name__}: {e}"))
        finally:
            self.status[tid] = "done"
            _tls.sched = None
            nxt = None
            if self.error is None and not self.aborting:
                try:
                    nxt = self._pick(tid)
                except BaseException as e:  # noqa: BLE001
                    self.error = (tid, e)
            if nxt is None or self.error is not None:
                self.main.release()
            else:
                self.sems[nxt].release()

    # called in the main thread ---------------------------------------------------------------
    def run(self, fns):
        n = len(fns)
        self.sems = [threading.Semaphore(0) for _ in range(n)]
        self.status = ["ready"] * n
        self.blocked_on = [None] * n
        workers = _pool(n)
        for i in range(n):
            workers[i].job = (self, i, fns[i])
            workers[i].cmd.release()
        self.active = True
        try:
            first = self._pick(None)
            self.sems[first].release()
            if not self.main.acquire(timeout=30):
                raise HarnessError("threads did not finish or block within 30 s")
        finally:
            self.active = False
            self.aborting = True
            for i in range(n):
                self.sems[i].release()
        for i in range(n):
            if not workers[i].idle.acquire(timeout=10):
                raise HarnessError("worker thread did not terminate")
        if self.error is not None:
            e = self.error[1]
            if isinstance(e, HarnessError):
                raise e
            raise HarnessError(f"thread {self.error[0]} raised {e!r}")
        if self.deadlock:
            raise Deadlock(self.deadlock)


# ---------------------------------------------------------------------------------------------
# components, programs, sequential reference
# ---------------------------------------------------------------------------------------------

KL = {"T": ErrorClass.TRANSIENT, "U": ErrorClass.UNKNOWN, "S": ErrorClass.SERVER_ERROR}


class _ThreadingProxy:
    """Stands in for the ``threading`` module inside redress.circuit / redress.budget, so that a
    lock the component creates *later* (lazily on first use, or again on a state change) is a
    model lock too and its acquire/release are scheduling points."""

    def __init__(self, real):
        self._real = real

    def Lock(self):
        return ModelLock(_current_sched)

    def RLock(self):
        return ModelLock(_current_sched, reentrant=True)

    def __getattr__(self, name):
        return getattr(self._real, name)


for _m in (circuit_mod, budget_mod):
    if hasattr(_m, "threading"):
        _m.threading = _ThreadingProxy(threading)


def install_model_locks(obj, sched):
    found = 0
    for name, val in list(vars(obj).items()):
        if isinstance(val, _LOCK_TYPES):
            setattr(obj, name, ModelLock(sched, reentrant=isinstance(val, _LOCK_TYPES[1])))
            found += 1
    return found


class ClockFault(Exception):
    """The injected time source fails once."""


_clock_fault = {"tid": None}


def _faulty_clock():
    me = getattr(_tls, "tid", "seq")
    if _clock_fault["tid"] is not None and _clock_fault["tid"] == me:
        _clock_fault["tid"] = None
        raise ClockFault("clock source unavailable")
    return E.v_monotonic()


def build(program, sched):
    """Create the component in its initial state (setup runs sequentially, ticks allowed)."""
    global _current_sched
    _current_sched = sched
    clock = E.Clock()
    E.set_clock(clock)
    _clock_fault["tid"] = None
    comp = program["component"]
    if comp == "breaker":
        c = program["cfg"]
        obj = CircuitBreaker(failure_threshold=c["threshold"], window_s=c["window"] * TAU,
                             recovery_timeout_s=c["recovery"] * TAU, trip_on={KL["T"]},
                             class_thresholds={KL[k]: v for k, v in c["class_thresholds"].items()}
                             if c.get("class_thresholds") else None,
                             clock=_faulty_clock)
    else:
        c = program["cfg"]
        obj = Budget(max_retries=c["max"], window_s=c["window"] * TAU)
    install_model_locks(obj, sched)
    for op in program["setup"]:
        if op[0] == "tick":
            clock.now += op[1] * TAU
        else:
            do_op(obj, op)
    return obj, clock


def do_op(obj, op):
    k = op[0]
    if k == "faulty":
        # the breaker's injected clock raises at its next read made by this thread
        _clock_fault["tid"] = getattr(_tls, "tid", "seq")
        try:
            return ("faulty",) + tuple(do_op(obj, op[1]))
        except ClockFault:
            return ("faulty", "clock-fault")
        finally:
            if _clock_fault["tid"] == getattr(_tls, "tid", "seq"):
                _clock_fault["tid"] = None
    if k == "allow":
        d = obj.allow()
        return ("allow", d.allowed, d.state.value, d.event)
    if k == "success":
        return ("success", obj.record_success())
    if k == "failure":
        return ("failure", obj.record_failure(KL[op[1]]))
    if k == "cancel":
        return ("cancel", obj.record_cancel())
    if k == "state":
        return ("state", obj.state.value)
    if k == "consume":
        return ("consume", obj.consume(op[1]))
    if k == "remaining":
        return ("remaining", obj.remaining())
    if k == "tick":
        E.CLOCK.now += op[1] * TAU
        return ("tick", op[1])
    raise ValueError(op)


def canon(obj, clock, comp):
    now = clock.now
    from .statebfs import generic_canon
    return generic_canon(obj, now)


def probe(obj, clock, comp):
    if comp == "breaker":
        out = [do_op(obj, ("state",)), do_op(obj, ("allow",)), do_op(obj, ("allow",))]
        clock.now += 64 * TAU
        out += [do_op(obj, ("allow",)), do_op(obj, ("failure", "T")), do_op(obj, ("state",))]
        return tuple(out)
    out = [do_op(obj, ("remaining",)), do_op(obj, ("consume", 1)), do_op(obj, ("remaining",))]
    return tuple(out)


def sequential_outcomes(program):
    """All results obtainable by running the threads' operations in some sequential order that
    respects each thread's program order, on the real component."""
    threads = program["threads"]
    slots = [i for i, t in enumerate(threads) for _ in t]
    outs = set()
    for order in set(itertools.permutations(slots)):
        obj, clock = build(program, None)
        pos = [0] * len(threads)
        results = [[] for _ in threads]
        for tid in order:
            op = threads[tid][pos[tid]]
            pos[tid] += 1
            results[tid].append(do_op(obj, op))
        outs.add((tuple(tuple(r) for r in results), canon(obj, clock, program["component"]),
                  probe(obj, clock, program["component"])))
    return outs


def run_program(program, ch):
    sched = Scheduler(ch)
    obj, clock = build(program, sched)
    results = [[] for _ in program["threads"]]

    def make(tid, ops):
        def fn():
            for op in ops:
                results[tid].append(do_op(obj, op))
        return fn

    fns = [make(i, ops) for i, ops in enumerate(program["threads"])]
    try:
        sched.run(fns)
    except Deadlock as e:
        return ("deadlock", str(e), tuple(sched.trace))
    comp = program["component"]
    if sched.raised:
        return ("raised", tuple(sched.raised), tuple(sched.trace))
    try:
        return ("ok", (tuple(tuple(r) for r in results), canon(obj, clock, comp),
                       probe(obj, clock, comp)), tuple(sched.trace))
    except SelfDeadlock as e:
        return ("deadlock", str(e), tuple(sched.trace))


def explore_program(program, bound, granularity, seed=0, cap=None):
    setup_monitoring(granularity)
    res = new_result()
    try:
        allowed = sequential_outcomes(program)
    except SelfDeadlock as e:
        res["execs"] = 1
        res["nviol"] = 1
        res["viol_keys"]["c17.deadlock"] = 1
        res["violations"].append({
            "key": "c17.deadlock", "msg": f"{program['name']}: even the sequential run "
            f"deadlocks: {e}", "family": "threads", "cfg": program, "entry": granularity,
            "choices": [], "labels": [], "trace": [], "extra": {"bound": bound}})
        res["outcomes"] = {(program["name"], "self-deadlock")}
        return res
    seen = set()
    sched_states = set()

    def run(ch):
        return run_program(program, ch)

    def on_exec(ch, r):
        res["execs"] += 1
        kind, out, trace = r
        seen.add((kind, out))
        for i in range(1, len(trace) + 1):
            sched_states.add(hash(trace[:i]))
        dev = ch.deviations()
        if dev > res["max_dev"]:
            res["max_dev"] = dev
        bad = None
        if kind == "deadlock":
            bad = ("c17.deadlock", f"{program['name']}: {out}; schedule {list(trace)}")
        elif kind == "raised":
            bad = ("c17.exception", f"{program['name']}: schedule {list(trace)} makes the "
                                    f"component raise {out}; no sequential order raises")
        elif out not in allowed:
            bad = ("c17.not-linearizable",
                   f"{program['name']}: schedule {list(trace)} yields results {out[0]} final "
                   f"{out[1]} which no sequential order produces "
                   f"(sequential results: {sorted({repr(a[0]) for a in allowed})})")
        if bad:
            res["nviol"] += 1
            res["viol_keys"][bad[0]] = res["viol_keys"].get(bad[0], 0) + 1
            if not any(v["key"] == bad[0] for v in res["violations"]):
                res["violations"].append({
                    "key": bad[0], "msg": bad[1], "family": "threads", "cfg": program,
                    "entry": granularity, "choices": list(ch.choices()), "labels": ch.labels(),
                    "trace": list(trace), "extra": {"bound": bound}})
        if len(res["samples"]) < 1 and res["execs"] == 3 + seed % 5:
            res["samples"].append({"program": program["name"], "schedule": list(trace),
                                   "results": repr(out)[:300]})

    n, capped = explore(run, bound, on_exec, max_execs=cap, selfcheck_every=97,
                        selfcheck_phase=seed % 97, same=lambda a, b: a == b)
    res["capped"] = capped
    res["states"] = len(sched_states) + 1      # nodes of the schedule tree (prefixes), plus root
    res["transitions"] = len(sched_states)     # one incoming edge per non-root node
    res["outcomes"] = {(program["name"], s[0], repr(s[1])[:200]) for s in seen}
    res["nontrivial"] = {hash((program["name"], s)) for s in seen}
    return res
