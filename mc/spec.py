"""Reference interpretation of a retry run, re-derived from the observed trace only.

``attempts(cfg, call, grants)`` walks one CallView and yields an ``Att`` per operation
invocation with everything the property monitors need: which stop conditions hold at the
moment the attempt failed (must / may sets, the difference being the documented boundary
don't-cares), the records that followed it, the delay the specification requires, etc.
"""

from __future__ import annotations

import math

from .tracelib import NONRETRY

TAU = 0.125
INF_DEADLINE = 1.0e6

TERMINAL_EVENTS = {
    "success", "permanent_fail", "deadline_exceeded", "max_attempts_exceeded",
    "max_unknown_attempts_exceeded", "no_strategy_configured", "budget_exhausted",
    "scheduled", "aborted",
}
EVENT_REASON = {
    "permanent_fail": "NON_RETRYABLE_CLASS",
    "deadline_exceeded": "DEADLINE_EXCEEDED",
    "max_unknown_attempts_exceeded": "MAX_UNKNOWN_ATTEMPTS",
    "no_strategy_configured": "NO_STRATEGY",
    "budget_exhausted": "BUDGET_EXHAUSTED",
    "scheduled": "SCHEDULED",
    "aborted": "ABORTED",
}
KLASS_FULL = {"T": "TRANSIENT", "R": "RATE_LIMIT", "S": "SERVER_ERROR", "C": "CONCURRENCY",
              "U": "UNKNOWN", "P": "PERMANENT", "A": "AUTH", "F": "PERMISSION"}


def deadline_s(cfg):
    return INF_DEADLINE if cfg["deadline"] is None else cfg["deadline"] * TAU


def strategy_for(cfg, k):
    """Name of the strategy stub the statement designates for class k, or None."""
    st = cfg["strat"]
    if k in (st.get("per") or {}):
        return k
    if st.get("default"):
        return "default"
    return None


def strategy_style(cfg, name):
    st = cfg["strat"]
    style = st["default"] if name == "default" else st["per"][name]
    return "ctx" if style == "ctx+opt" else style


class BudgetRef:
    """Reference sliding-window budget built from observed grant instants."""

    def __init__(self, cfg):
        b = cfg["budget"]
        self.on = b is not None
        if self.on:
            self.max = b["max"]
            self.window = b["window"] * TAU
            self.grants = [0.0] * b.get("prefill", 0)

    def must_refuse(self, t, cost=1):
        if not self.on:
            return False
        n = sum(1 for g in self.grants if t - g < self.window)
        return n + cost > self.max

    def may_refuse(self, t, cost=1):
        if not self.on:
            return False
        n = sum(1 for g in self.grants if t - g <= self.window)
        return n + cost > self.max

    def grant(self, t):
        if self.on:
            self.grants.append(t)


class Att:
    __slots__ = ("i", "op", "seg", "last", "must", "may", "elapsed", "count_k", "strategy",
                 "consumes", "retries", "terminals", "handlers", "bsleeps", "sleeps", "polls",
                 "abort_polled", "classify", "remaining", "prev_delay", "delay_expected",
                 "events")

    def __init__(self):
        self.must = set()
        self.may = set()


def sanitise(answer_label, remaining):
    """The delay the statement of C05 requires for a strategy answer (label from the menu)."""
    if isinstance(answer_label, str) and answer_label.startswith("int:"):
        v = float(int(answer_label[4:]))      # an int answer, in seconds
    elif isinstance(answer_label, str):
        v = {"nan": math.nan, "inf": math.inf, "-inf": -math.inf}.get(answer_label, 0.0)
    else:
        v = answer_label * TAU
    if not math.isfinite(v) or v < 0:
        v = 0.0
    if remaining is not None:
        v = min(v, remaining)
    return v


def attempts(cfg, call, budget=None):
    """Yield Att for each op of the call.  ``budget`` is a BudgetRef shared across calls."""
    M = cfg["M"]
    pc = cfg["per_class"]
    mu = cfg["max_unknown"]
    D = deadline_s(cfg)
    if budget is None:
        budget = BudgetRef(cfg)
    counts = {}
    prev_delay = None
    n_ops = len(call.ops)
    for idx, op in enumerate(call.ops):
        a = Att()
        a.i = idx + 1
        a.op = op
        a.seg = call.segs[idx]
        a.last = idx + 1 == n_ops
        a.elapsed = op.t1 - call.t_start
        a.prev_delay = prev_delay
        a.strategy = [r for r in a.seg if r[0] == "strategy"]
        a.consumes = [r for r in a.seg if r[0] == "consume"]
        a.events = [r for r in a.seg if r[0] == "metric"]
        a.retries = [r for r in a.events if r[1] == "retry"]
        a.terminals = [r for r in a.events if r[1] in TERMINAL_EVENTS]
        a.handlers = [r for r in a.seg if r[0] == "handler"]
        a.bsleeps = [r for r in a.seg if r[0] == "bsleep"]
        a.sleeps = [r for r in a.seg if r[0] == "sleep"]
        a.polls = [r for r in a.seg if r[0] == "poll"]
        a.abort_polled = any(r[1] for r in a.polls)
        a.classify = [r for r in a.seg if r[0] in ("classify", "rclassify")]
        a.remaining = D - a.elapsed if cfg["deadline"] is not None else D - a.elapsed
        a.delay_expected = None
        if op.failed:
            k = op.klass
            counts[k] = counts.get(k, 0) + 1
            a.count_k = counts[k]
            if k in NONRETRY:
                a.must.add("NON_RETRYABLE_CLASS")
            if k in pc and counts[k] > pc[k]:
                a.must.add("MAX_ATTEMPTS_PER_CLASS")
            if k == "U" and mu is not None and counts[k] > mu:
                a.must.add("MAX_UNKNOWN_ATTEMPTS")
            if a.elapsed >= D:
                a.must.add("DEADLINE_EXCEEDED")
            if strategy_for(cfg, k) is None:
                a.must.add("NO_STRATEGY")
            if a.i >= M:
                a.must.add("MAX_ATTEMPTS_GLOBAL")
            a.may |= a.must
            if budget.on:
                # tokens taken by another party before the library asks count against it
                later = []
                asked = False
                for c in a.seg:
                    if c[0] == "consume":
                        asked = True
                        later.append(c)
                    elif c[0] == "consume_x":
                        if asked:
                            later.append(c)
                        elif c[1]:
                            budget.grant(c[2])
                if budget.must_refuse(op.t1):
                    a.must.add("BUDGET_EXHAUSTED")
                    a.may.add("BUDGET_EXHAUSTED")
                elif budget.may_refuse(op.t1):
                    a.may.add("BUDGET_EXHAUSTED")
                for c in later:
                    if c[1]:
                        budget.grant(c[2])
            if a.retries:
                prev_delay = a.retries[-1][3]
        else:
            a.count_k = 0
        yield a


def terminal_reason(call):
    """Stop reason carried by the terminal metric event of a call (None if success/no event)."""
    for r in reversed(call.metrics()):
        if r[1] in TERMINAL_EVENTS:
            tags = dict(r[4])
            return r[1], tags.get("stop_reason")
    return None, None


def delivered_reason(call):
    """Stop reason delivered to the caller: outcome.stop_reason or RetryExhaustedError field."""
    end = call.end
    if end is None:
        return None
    if end[1] == "outcome":
        return end[4]
    if end[1] == "raise" and end[4] is not None:
        return end[4][0]
    if end[1] == "raise" and end[2] == "AbortRetryError":
        return "ABORTED"
    return None
