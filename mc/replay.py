"""Re-execute one recorded counterexample without the explorer."""

from __future__ import annotations

import json


def main(path):
    with open(path) as f:
        doc = json.load(f)
    from . import env
    env.install()
    from .runner import prop_module
    mod = prop_module(doc["property"])
    w, viols = mod.replay(doc)
    print(f"replay of {path}: property={doc['property']} family={doc['family']} entry={doc['entry']}")
    print("choices:", doc.get("labels"))
    trace = getattr(w, "trace", None)
    if trace is not None:
        for r in trace:
            print("   ", r)
    if viols:
        for key, msg in viols:
            print(f"VIOLATED [{key}] {msg}")
        print(f"VIOLATION property={doc['property']} replay={path}")
        return 1
    print("no violation on this replay (property holds on the current tree for this input)")
    return 0
