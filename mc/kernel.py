"""Exploration kernel: choice points, replay, deviation-bounded stateless DFS.

A *choice point* is ``Chooser.choose(kind, n, free=False)``: code under exploration asks for
an index in ``range(n)``.  Alternative 0 is the default.  A non-default alternative costs 1
deviation unless the point is ``free`` (a dimension the family enumerates completely).

``explore(run, bound)`` enumerates *every* choice sequence whose total deviation cost is
<= bound.  Executions always run to completion.  Replay fidelity (same kind and arity at every
replayed position) is a hard error: it means some nondeterminism is not owned by the harness.
"""

from __future__ import annotations


class HarnessError(Exception):
    """The harness itself is broken (never reported as a property violation)."""


class ReplayMismatch(HarnessError):
    pass


class Chooser:
    __slots__ = ("prefix", "meta", "pos", "log")

    def __init__(self, prefix=(), meta=None):
        self.prefix = prefix
        self.meta = meta  # tuple of (kind, n) for the replayed prefix, or None
        self.pos = 0
        self.log = []  # (kind, n, chosen, free)

    def choose(self, kind, n, free=False):
        if n <= 0:
            raise HarnessError(f"choice point {kind!r} with no alternatives")
        i = self.pos
        if i < len(self.prefix):
            c = self.prefix[i]
            if self.meta is not None:
                mk, mn = self.meta[i]
                if mk != kind or mn != n:
                    raise ReplayMismatch(
                        f"replay diverged at choice {i}: recorded {(mk, mn)}, now {(kind, n)}"
                    )
            if c >= n:
                raise ReplayMismatch(f"replayed choice {c} out of range {n} at {i} ({kind})")
        else:
            c = 0
        self.log.append((kind, n, c, free))
        self.pos = i + 1
        return c

    # convenience -----------------------------------------------------------------------
    def pick(self, kind, options, free=False):
        if len(options) == 1:
            return options[0]
        return options[self.choose(kind, len(options), free)]

    def choices(self):
        return tuple(e[2] for e in self.log)

    def labels(self):
        return [(e[0], e[2]) for e in self.log]

    def deviations(self):
        return sum(1 for e in self.log if e[2] and not e[3])


class Capped(Exception):
    pass


def explore(run, bound, on_exec, max_execs=None, selfcheck_every=0, selfcheck_phase=0,
            same=None):
    """Enumerate all executions of ``run(chooser)`` with deviation cost <= bound.

    on_exec(chooser, result) is called for each complete execution.
    Returns (executions, capped).  ``selfcheck_every`` > 0 re-runs every N-th execution with its
    complete choice list and requires ``same(result_a, result_b)``.
    """
    stack = [((), ())]
    n = 0
    capped = False
    while stack:
        if max_execs is not None and n >= max_execs:
            capped = True
            break
        prefix, meta = stack.pop()
        ch = Chooser(prefix, meta)
        result = run(ch)
        if ch.pos < len(prefix):
            raise ReplayMismatch(
                f"execution consumed {ch.pos} of {len(prefix)} replayed choices"
            )
        n += 1
        if selfcheck_every and (n + selfcheck_phase) % selfcheck_every == 0:
            full = ch.choices()
            ch2 = Chooser(full, tuple((e[0], e[1]) for e in ch.log))
            result2 = run(ch2)
            if ch2.pos != len(full) or len(ch2.log) != len(ch.log):
                raise ReplayMismatch("determinism self-check: choice structure differs")
            if same is not None and not same(result, result2):
                raise ReplayMismatch("determinism self-check: traces differ on identical choices")
        on_exec(ch, result)
        log = ch.log
        plen = len(prefix)
        if len(log) == plen:
            continue
        cum = 0
        cums = []
        for e in log:
            cums.append(cum)
            if e[2] and not e[3]:
                cum += 1
        choices = [e[2] for e in log]
        metas = [(e[0], e[1]) for e in log]
        for i in range(len(log) - 1, plen - 1, -1):
            kind, arity, _c, free = log[i]
            if arity == 1:
                continue
            cost = cums[i] + (0 if free else 1)
            if cost > bound:
                continue
            base = tuple(choices[:i])
            m = tuple(metas[: i + 1])
            for alt in range(arity - 1, 0, -1):
                stack.append((base + (alt,), m))
    return n, capped


def run_once(run, choices):
    """Replay one complete choice list (no meta check, out-of-range is an error)."""
    ch = Chooser(tuple(choices), None)
    result = run(ch)
    if ch.pos < len(choices):
        raise ReplayMismatch(f"replay consumed {ch.pos} of {len(choices)} choices")
    return ch, result
